"""C17 part (ii) / C16 part (iii): in a *real* run the identity mutators
(function inlining above all) and the sort inference answer from ddSMT's
symbol tables, which must be those of the current input.  The API-plane
parts rebuild the tables themselves and cannot see a strategy that lets
them go stale after an accepted step.  The launcher's 'tables' monitor
compares, wherever the main thread starts generating simplifications for an
input, the answers given now with the answers after a fresh
collect_information on that input (the tables are put back afterwards)."""
import os
import shutil

from vlib import common, realrun, workload


def make_case(r):
    kind = r.choice(['defs', 'defs', 'dt-roles', 'general'])
    if kind == 'defs':
        # definitions whose bodies change by size-neutral accepted steps
        # (8 -> 4, a -> b) before inlining is tried
        n = r.randint(1, 3)
        lines = ['(set-logic QF_LIA)', '(declare-const a Int)',
                 '(declare-const b Int)']
        for i in range(n):
            k = r.randint(2, 9)
            if r.random() < 0.5:
                lines.append(f'(define-fun f{i} () Int (+ a {k}))')
                use = f'f{i}'
            else:
                lines.append(
                    f'(define-fun f{i} ((p Int)) Int (+ p (* {k} b)))')
                use = f'(f{i} {r.choice(["a", "b", "3"])})'
            lines.append(f'(assert (> (* 2 {use}) {r.randint(2, 9)}))')
        text = '\n'.join(lines + ['(check-sat)']) + '\n'
        pred = r.choice(['has:define-fun', 'count:assert>=1',
                         'has:define-fun count:assert>=1 &', 'all',
                         'has:f0'])
        rules = realrun.simple_spec(pred)
    elif kind == 'dt-roles':
        # a name changes its role during the run (SimplifySymbolNames
        # shortens pp to p after the datatype with constructor p is gone)
        lines = ['(declare-datatype Pair ((p (fst Int) (snd Int))))',
                 '(declare-fun pp (Int Int) Int)', '(declare-const x Int)',
                 '(declare-fun q (Pair) Bool)',
                 '(assert (q (p x 2)))', '(assert (= 0 (pp x 2)))',
                 '(check-sat)']
        text = '\n'.join(lines) + '\n'
        pred = r.choice(['has:declare-fun has:x &', 'count:x>=2',
                         'has:declare-fun count:assert>=1 &'])
        rules = realrun.simple_spec(pred)
    else:
        s = workload.small_script(r, r.choice(['small', 'medium']),
                                  theories=['core', 'ints', 'defs'] +
                                  r.sample(['bv', 'dt', 'let', 'uf'], 2))
        text = workload.render_with_noise(r, s.nested(), comments=False)
        rules, _ = workload.pick_spec(r, text, families=['has', 'count',
                                                         'all', 'ntok'])
    strat = r.choice(['ddmin', 'ddmin', 'hybrid', 'hierarchical'])
    opts = ['--strategy', strat, '-j', str(r.choice([1, 1, 2, 4])),
            '--timeout', '20', '--arithmetic', '--datatypes', '--bv']
    return text, rules, opts, {'input': text, 'rules': rules, 'opts': opts,
                               'kind': kind}


def shard(args):
    res = common.ShardResult()
    r = common.rng('c17real', args['shard'])
    base = common.scratch_dir('c17')
    want = args['want']
    try:
        for i in range(args['n']):
            text, rules, opts, desc = make_case(r)
            wd = os.path.join(base, f'r{i}')
            run = realrun.run_ddsmt(wd, text, rules, opts=opts,
                                    launcher={'monitors': ['tables']})
            shutil.rmtree(wd, ignore_errors=True)
            res.count('evaluations')
            res.count('real_runs')
            if run.timed_out or run.rc != 0:
                res.count('real_runs_failed')
                continue
            for e in run.events:
                if e['ev'] == 'monitor_error':
                    res.add_set('monitor_errors', e['error'][:100])
                    res.count('monitor_errors')
                if e['ev'] != 'tables':
                    continue
                res.count('table_checkpoints')
                res.count('definitions_compared', e['defs'])
                res.count('sort_answers_compared', e['known_sorts'])
                res.add_set('checkpoint_places', e['where'])
                w = dict(desc)
                if want == 'defs' and e['stale_defs']:
                    name, old, new = e['stale_defs'][0]
                    w['stale'] = e['stale_defs']
                    res.violation(
                        'real-run:inlines-outdated-definition',
                        f'at {e["where"]} ddSMT would inline "{name}" as '
                        f'{old!r}, but the current input defines it as '
                        f'{new!r}', w)
                    break
                if want == 'sorts' and e['stale_sorts']:
                    term, old, new = e['stale_sorts'][0]
                    w['stale'] = e['stale_sorts']
                    res.violation(
                        'real-run:sort-depends-on-history',
                        f'at {e["where"]} get_sort({term}) answers {old!r}; '
                        f'after collecting the information of the very same '
                        f'input afresh it answers {new!r}', w)
                    break
    finally:
        shutil.rmtree(base, ignore_errors=True)
    return res.to_dict()


def run(ctx, want):
    n = 3 if ctx.tier == 'quick' else 60
    shards = [{'shard': i, 'n': n, 'want': want} for i in range(common.NCPU)]
    results = common.run_shards('checks.c17_real', shards, timeout=3400)
    common.merge_shards(ctx, results)
    if ctx.counters.get('monitor_errors', 0):
        ctx.inconclusive_because('the tables monitor itself failed: ' +
                                 str(ctx.extra.get('monitor_errors')))
    if ctx.counters.get('table_checkpoints', 0) == 0:
        ctx.inconclusive_because('no checkpoint of a real run was reached')
