"""C17 part (ii) / C16 part (iii): in a *real* run the identity mutators
(function inlining above all) and the sort inference answer from ddSMT's
symbol tables, which must be those of the current input.  The API-plane
parts rebuild the tables themselves and cannot see a strategy that lets
them go stale after an accepted step.  The launcher's 'tables' monitor
compares, wherever the main thread starts generating simplifications for an
input, the answers given now with the answers after a fresh
collect_information on that input (the tables are put back afterwards)."""
import os
import shutil

from vlib import common, realrun, workload


def make_case(r):
    kind = r.choice(['defs', 'defs', 'dt-roles', 'general', 'bv-shared'])
    if kind == 'defs':
        # definitions whose bodies change by size-neutral accepted steps
        # (8 -> 4, a -> b) before inlining is tried
        n = r.randint(1, 3)
        lines = ['(set-logic QF_LIA)', '(declare-const a Int)',
                 '(declare-const b Int)']
        for i in range(n):
            k = r.randint(2, 9)
            if r.random() < 0.5:
                lines.append(f'(define-fun f{i} () Int (+ a {k}))')
                use = f'f{i}'
            else:
                lines.append(
                    f'(define-fun f{i} ((p Int)) Int (+ p (* {k} b)))')
                use = f'(f{i} {r.choice(["a", "b", "3"])})'
            lines.append(f'(assert (> (* 2 {use}) {r.randint(2, 9)}))')
        text = '\n'.join(lines + ['(check-sat)']) + '\n'
        pred = r.choice(['has:define-fun', 'count:assert>=1',
                         'has:define-fun count:assert>=1 &', 'all',
                         'has:f0'])
        rules = realrun.simple_spec(pred)
    elif kind == 'bv-shared':
        # A bit-vector variable replaced by a default constant: the constant
        # is built from the index node of the declared sort, so the numeral
        # is shared between two commands until it is re-duplicated; the
        # round after that starts behind the declaration.  Tables keyed by
        # node id must be those of the input the round works on.
        w = r.choice([4, 8, 16])
        lines = ['(set-logic QF_BV)',
                 f'(declare-const x (_ BitVec {w}))',
                 f'(declare-const y (_ BitVec {w}))',
                 '(assert (= (bvadd x y) (bvmul y (bvneg x))))',
                 '(assert (bvult y (bvor x y)))', '(check-sat)']
        text = '\n'.join(lines) + '\n'
        # both declarations and (bvadd x ..) stay: y gets replaced by a
        # default constant while its declaration is still there
        decl = ','.join(['declare-const', 'x', '%28', '_', 'BitVec', str(w),
                         '%29', 'declare-const', 'y', '%28', '_', 'BitVec',
                         str(w), '%29'])
        pred = f'subseq:{decl} subseq:%28,bvadd,x &'
        rules = realrun.simple_spec(pred)
    elif kind == 'dt-roles':
        # a name changes its role during the run (SimplifySymbolNames
        # shortens pp to p after the datatype with constructor p is gone)
        lines = ['(declare-datatype Pair ((p (fst Int) (snd Int))))',
                 '(declare-fun pp (Int Int) Int)', '(declare-const x Int)',
                 '(declare-fun q (Pair) Bool)',
                 '(assert (q (p x 2)))', '(assert (= 0 (pp x 2)))',
                 '(check-sat)']
        text = '\n'.join(lines) + '\n'
        pred = r.choice(['has:declare-fun has:x &', 'count:x>=2',
                         'has:declare-fun count:assert>=1 &'])
        rules = realrun.simple_spec(pred)
    else:
        s = workload.small_script(r, r.choice(['small', 'medium']),
                                  theories=['core', 'ints', 'defs'] +
                                  r.sample(['bv', 'dt', 'let', 'uf'], 2))
        text = workload.render_with_noise(r, s.nested(), comments=False)
        rules, _ = workload.pick_spec(r, text, families=['has', 'count',
                                                         'all', 'ntok'])
    strat = r.choice(['ddmin', 'ddmin', 'hybrid', 'hierarchical'])
    if kind == 'bv-shared':
        strat = r.choice(['hierarchical', 'hierarchical', 'hybrid'])
    opts = ['--strategy', strat, '-j', str(r.choice([1, 1, 2, 4])),
            '--timeout', '20', '--arithmetic', '--datatypes', '--bv']
    if kind == 'bv-shared' and r.random() < 0.5:
        opts += ['--disable-all', '--constants']
    return text, rules, opts, {'input': text, 'rules': rules, 'opts': opts,
                               'kind': kind}


FRESH_PROCESS = r'''
import json, sys
sys.argv = ['ddsmt', 'in.smt2', 'out.smt2', 'cmd']
sys.path.insert(0, sys.argv and %r)
from ddsmt import nodeio, nodes, smtlib
try:
    from ddsmt import cli
    cli.setup_logging()
except Exception:
    pass
out = []
for snap in json.load(open(%r)):
    exprs = list(nodeio.parse_smtlib(snap['text']))
    try:
        smtlib.reset_information()
    except Exception:
        pass
    smtlib.collect_information(exprs)
    sorts = []
    for n in nodes.dfs(exprs):
        try:
            so = smtlib.get_sort(n)
            sorts.append(None if so is None else str(so))
        except Exception as e:
            sorts.append('!' + type(e).__name__)
    out.append({'sorts': sorts, 'terms': [str(n)[:80] for n in nodes.dfs(exprs)]})
json.dump(out, open(%r, 'w'))
'''


def fresh_answers(wd, snaps):
    """The sorts of all subterms of each snapshot text, computed by a fresh
    process that has seen nothing else (one process per snapshot list, but
    the tables are reset before each text)."""
    import json
    import subprocess
    os.makedirs(wd, exist_ok=True)
    fin = os.path.join(wd, 'snaps.json')
    fout = os.path.join(wd, 'fresh.json')
    with open(fin, 'w') as f:
        json.dump([{'text': s['text']} for s in snaps], f)
    prog = FRESH_PROCESS % (common.REPO, fin, fout)
    try:
        subprocess.run([common.PY, '-c', prog], timeout=300, check=True,
                       env=common.child_env(), capture_output=True)
        with open(fout) as f:
            return json.load(f)
    except Exception:  # noqa
        return None


def judge_snapshots(res, wd, run, desc, want):
    snaps = [e for e in run.events if e['ev'] == 'tables_snapshot']
    if not snaps:
        return
    # a fresh interpreter for every snapshot: nothing may be inherited
    for snap in snaps[-4:]:
        fresh = fresh_answers(wd, [snap])
        if not fresh:
            res.count('fresh_process_failures')
            continue
        f = fresh[0]
        res.count('fresh_process_snapshots')
        if len(f['sorts']) != len(snap['sorts']):
            res.count('fresh_process_shape_mismatch')
            continue
        for i, (old, new) in enumerate(zip(snap['sorts'], f['sorts'])):
            if old == new:
                continue
            res.count('fresh_process_answers_differing')
            if old is None or new is None or str(old).startswith('!') or \
                    str(new).startswith('!'):
                # 'unknown' on one side is allowed by C16 (history
                # dependence of that kind is C02's: second run)
                res.count('fresh_process_unknown_vs_known')
                continue
            if want == 'sorts':
                w = dict(desc)
                w['snapshot'] = snap['text'][:3000]
                res.violation(
                    'real-run:sort-depends-on-history',
                    f'at {snap["where"]} get_sort({f["terms"][i]}) answers '
                    f'{old!r} in the running process; a fresh process '
                    f'given the same input answers {new!r}', w)
                return


def shard(args):
    res = common.ShardResult()
    r = common.rng('c17real', args['shard'])
    base = common.scratch_dir('c17')
    want = args['want']
    try:
        for i in range(args['n']):
            text, rules, opts, desc = make_case(r)
            wd = os.path.join(base, f'r{i}')
            run = realrun.run_ddsmt(wd, text, rules, opts=opts,
                                    launcher={'monitors': ['tables']})
            shutil.rmtree(wd, ignore_errors=True)
            res.count('evaluations')
            res.count('real_runs')
            if run.timed_out or run.rc != 0:
                res.count('real_runs_failed')
                continue
            if want == 'sorts':
                judge_snapshots(res, wd + '_fresh', run, desc, want)
                shutil.rmtree(wd + '_fresh', ignore_errors=True)
            for e in run.events:
                if e['ev'] == 'monitor_error':
                    res.add_set('monitor_errors', e['error'][:100])
                    res.count('monitor_errors')
                if e['ev'] != 'tables':
                    continue
                res.count('table_checkpoints')
                res.count('definitions_compared', e['defs'])
                res.count('sort_answers_compared', e['known_sorts'])
                res.add_set('checkpoint_places', e['where'])
                w = dict(desc)
                if want == 'defs' and e['stale_defs']:
                    name, old, new = e['stale_defs'][0]
                    w['stale'] = e['stale_defs']
                    res.violation(
                        'real-run:inlines-outdated-definition',
                        f'at {e["where"]} ddSMT would inline "{name}" as '
                        f'{old!r}, but the current input defines it as '
                        f'{new!r}', w)
                    break
                if want == 'sorts' and e['stale_sorts']:
                    term, old, new = e['stale_sorts'][0]
                    w['stale'] = e['stale_sorts']
                    res.violation(
                        'real-run:sort-depends-on-history',
                        f'at {e["where"]} get_sort({term}) answers {old!r}; '
                        f'after collecting the information of the very same '
                        f'input afresh it answers {new!r}', w)
                    break
    finally:
        shutil.rmtree(base, ignore_errors=True)
    return res.to_dict()


def run(ctx, want):
    n = 3 if ctx.tier == 'quick' else 60
    shards = [{'shard': i, 'n': n, 'want': want} for i in range(common.NCPU)]
    results = common.run_shards('checks.c17_real', shards, timeout=3400)
    common.merge_shards(ctx, results)
    if ctx.counters.get('monitor_errors', 0):
        ctx.inconclusive_because('the tables monitor itself failed: ' +
                                 str(ctx.extra.get('monitor_errors')))
    if ctx.counters.get('table_checkpoints', 0) == 0:
        ctx.inconclusive_because('no checkpoint of a real run was reached')
