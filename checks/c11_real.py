"""C11 part (iii): simplifications as a real parallel run applies them.

With only EraseNode enabled every accepted step removes the designated
subtree and leaves every other token in place.  So the contents written to
the output file must shrink monotonically: each is a subsequence of its
predecessor's token sequence, and no token that has left the input ever
comes back.  A step whose result was computed for an *earlier* input (a
pending simplification applied to the wrong tree, a second success of the
same sweep adopted as well) re-inserts what the step before removed.

The command accepts everything and takes the same few milliseconds for every
candidate, so that with -j 4..16 several successes finish together.
"""
import os
import shutil

from vlib import common, realrun, refreader


def is_subsequence(small, big):
    it = iter(big)
    return all(any(x == y for y in it) for x in small)


def make_case(r):
    n = r.randint(6, 14)
    shape = r.choice(['flat', 'nested', 'mixed'])
    lines = []
    for i in range(n):
        if shape == 'flat' or (shape == 'mixed' and i % 2):
            lines.append(f'(assert (f{i} a{i} b{i}))')
        else:
            lines.append(f'(assert (g{i} (h{i} a{i}) (k{i} b{i} c{i})))')
    if r.random() < 0.5:
        # top-level leaves: erasing one removes no s-expression
        for k in range(r.randint(1, 4)):
            lines.insert(r.randint(0, len(lines)),
                         r.choice([f'stray{k}', f'"top {k}"', f':kw{k}']))
    text = '\n'.join(lines) + '\n(check-sat)\n'
    pred = r.choice(['all', 'all', 'has:check-sat', 'hash:4:0,1,2'])
    d = r.choice([2000, 5000, 10000])
    rules = [realrun.rule(pred, 1, 'bug\n', '', delay_us=d),
             realrun.rule('all', 0, 'ok\n', '', delay_us=d)]
    opts = ['--strategy', r.choice(['hierarchical', 'hierarchical', 'hybrid']),
            '-j', str(r.choice([4, 8, 16])), '--timeout', '20',
            '--disable-all', '--erase-node']
    return text, rules, opts, {'input': text, 'rules': rules, 'opts': opts}


def make_rename_case(r):
    """Renaming a symbol puts one node at every place of the symbol; a later
    step computed for *one* of those places must change that place only.
    Enabled: SimplifySymbolNames and EraseNode.  The first command declares
    the symbol (a success at the very first node makes strategy hierarchical
    continue at position 0)."""
    names = r.sample(['abcdefgh', 'counter_value', 'tmp_result_17',
                      'qrstuvwx', 'limit_value'], r.randint(1, 3))
    lines = [f'(declare-const {n} Int)' for n in names]
    for i in range(r.randint(3, 6)):
        a, b = r.choice(names), r.choice(names)
        lines.append(r.choice([f'(assert (> {a} {i}))',
                               f'(assert (< {a} (+ {b} {a})))',
                               f'(assert (distinct {a} {b} {i}))']))
    if r.random() < 0.4:
        lines.insert(0, '(set-logic QF_LIA)')
    text = '\n'.join(lines) + '\n(check-sat)\n'
    # while the first name still has its long form nothing may be removed;
    # afterwards every command has to stay, but what is inside may go
    ntok = len(refreader.lex(text))
    nassert = sum(1 for x in lines if x.startswith('(assert'))
    pred = (f'has:{names[0]} ntok>={ntok} & has:{names[0]} ! '
            f'count:assert>={nassert} & count:declare-const>={len(names)} & '
            f'has:check-sat & |')
    if r.random() < 0.5:
        # only renamings are accepted; every other candidate is computed,
        # compared with its designated place by the monitor, and rejected
        pred = f'ntok>={ntok}'
    d = r.choice([0, 2000])
    rules = [realrun.rule(pred, 1, 'bug\n', '', delay_us=d),
             realrun.rule('all', 0, 'ok\n', '', delay_us=d)]
    opts = ['--strategy', r.choice(['hierarchical', 'hierarchical', 'hybrid']),
            '-j', str(r.choice([1, 2, 4])), '--timeout', '20',
            '--disable-all', '--erase-node', '--simplify-symbol-names']
    return text, rules, opts, {'input': text, 'rules': rules, 'opts': opts,
                               'family': 'rename'}


def one_block_removed(cur, prev):
    if len(cur) >= len(prev):
        return False
    i = 0
    while i < len(cur) and cur[i] == prev[i]:
        i += 1
    k = len(prev) - len(cur)
    return cur[i:] == prev[i + k:]


def is_renaming(cur, prev):
    """Same length, a function old -> new on tokens that maps every
    occurrence of a renamed token."""
    if len(cur) != len(prev) or cur == prev:
        return False
    m = {}
    for a, b in zip(prev, cur):
        if m.setdefault(a, b) != b:
            return False
    return all(a == b or a not in '()' for a, b in m.items())


def judge_rename(res, run, text, desc):
    """Every step of the hierarchical phase is one simplification: either
    a renaming (same length, every occurrence of the old name) or the
    removal of one subtree, i.e. of one contiguous block of tokens."""
    prev = refreader.strip_comments(refreader.lex(text))
    t_hier = min((e['t'] for e in run.events
                  if e['ev'] == 'reduce_start'
                  and e.get('strategy') == 'hierarchical'), default=None)
    if t_hier is None:
        return
    k = 0
    for e in sorted((e for e in run.events if e['ev'] == 'write'
                     and e.get('text') is not None), key=lambda e: e['seq']):
        k += 1
        try:
            cur = refreader.strip_comments(refreader.lex(e['text']))
        except refreader.LexError:
            return
        if e['t'] >= t_hier:
            res.count('real_steps_judged')
            res.count('real_steps_of_rename_family')
            ok = one_block_removed(cur, prev) or is_renaming(cur, prev)
            if ok and is_renaming(cur, prev):
                res.count('real_steps_that_rename')
            if not ok:
                w = dict(desc)
                w['step'] = k
                w['before'] = ' '.join(prev)[:1500]
                w['after'] = ' '.join(cur)[:1500]
                res.violation(
                    'real-run:step-changes-more-than-one-place',
                    f'accepted step #{k} of the hierarchical phase '
                    f'({" ".join(desc["opts"][:4])}, only EraseNode and '
                    f'SimplifySymbolNames enabled) is neither a renaming nor '
                    f'the removal of one subtree', w)
                return
        prev = cur


def judge_designated(res, run, desc):
    """In the worker processes: a candidate computed for BFS node k of its
    base (one identity-keyed replacement, no new declarations) is the base
    with the subtree at that position replaced - nothing else."""
    for e in run.events:
        if e['ev'] == 'designated':
            res.count('candidates_compared_with_designated_place'
                      if e.get('located') else
                      'candidates_whose_node_was_not_located')
        elif e['ev'] == 'monitor_error' and e.get('where') == 'designated':
            res.count('designated_monitor_errors')
            res.add_set('monitor_errors', e.get('error', '')[:200])
    bad = [e for e in run.events if e['ev'] == 'designated_mismatch']
    if bad:
        b = bad[0]
        w = dict(desc)
        w.update({'task': b.get('name'), 'node': b.get('nodeid'),
                  'path': b.get('path'), 'base': b.get('base'),
                  'expected': b.get('expected'), 'got': b.get('got')})
        res.violation(
            'real-run:candidate-changes-another-place',
            f'a worker of a real run ({" ".join(desc["opts"][:4])}) built '
            f'the candidate of "{b.get("name")}" for node #{b.get("nodeid")} '
            f'(position {b.get("path")}), but the candidate is not its base '
            f'with that position replaced ({len(bad)} such candidates)', w)


def judge(res, run, text, desc):
    prev = refreader.strip_comments(refreader.lex(text))
    k = 0
    for e in run.events:
        if e['ev'] != 'write' or e.get('text') is None:
            continue
        k += 1
        try:
            cur = refreader.strip_comments(refreader.lex(e['text']))
        except refreader.LexError:
            continue  # rendering is C07's
        res.count('real_steps_judged')
        if not is_subsequence(cur, prev):
            back = [t for t in cur if t not in set(prev)][:5]
            w = dict(desc)
            w['step'] = k
            w['before'] = ' '.join(prev)[:1500]
            w['after'] = ' '.join(cur)[:1500]
            res.violation(
                'real-run:erased-tokens-come-back',
                f'with only EraseNode enabled, accepted step #{k} of a real '
                f'run ({" ".join(desc["opts"][:4])}) is not its predecessor '
                f'with something removed' +
                (f': tokens {back} had left the input' if back else ''), w)
            return
        prev = cur


def shard(args):
    res = common.ShardResult()
    r = common.rng('c11real', args['shard'])
    base = common.scratch_dir('c11r')
    try:
        for i in range(args['n']):
            rename = i % 3 == 2
            text, rules, opts, desc = make_rename_case(r) if rename \
                else make_case(r)
            wd = os.path.join(base, f'r{i}')
            run = realrun.run_ddsmt(
                wd, text, rules, opts=opts,
                launcher={'monitors': ['write', 'designated'],
                          'write_text': True})
            shutil.rmtree(wd, ignore_errors=True)
            res.count('evaluations')
            res.count('real_runs')
            if run.timed_out or run.rc != 0:
                res.count('real_runs_failed')
                continue
            judge_designated(res, run, desc)
            if rename:
                judge_rename(res, run, text, desc)
            else:
                judge(res, run, text, desc)
    finally:
        shutil.rmtree(base, ignore_errors=True)
    return res.to_dict()


def run(ctx):
    n = 3 if ctx.tier == 'quick' else 80
    shards = [{'shard': i, 'n': n} for i in range(common.NCPU)]
    results = common.run_shards('checks.c11_real', shards, timeout=3400)
    common.merge_shards(ctx, results)
    if ctx.counters.get('real_steps_judged', 0) < 50:
        ctx.inconclusive_because('too few accepted steps of real runs judged')
    if ctx.counters.get('candidates_compared_with_designated_place', 0) < 100:
        ctx.inconclusive_because('the monitor in the workers compared too '
                                 'few candidates with their designated place')
