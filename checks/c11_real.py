"""C11 part (iii): simplifications as a real parallel run applies them.

With only EraseNode enabled every accepted step removes the designated
subtree and leaves every other token in place.  So the contents written to
the output file must shrink monotonically: each is a subsequence of its
predecessor's token sequence, and no token that has left the input ever
comes back.  A step whose result was computed for an *earlier* input (a
pending simplification applied to the wrong tree, a second success of the
same sweep adopted as well) re-inserts what the step before removed.

The command accepts everything and takes the same few milliseconds for every
candidate, so that with -j 4..16 several successes finish together.
"""
import os
import shutil

from vlib import common, realrun, refreader


def is_subsequence(small, big):
    it = iter(big)
    return all(any(x == y for y in it) for x in small)


def make_case(r):
    n = r.randint(6, 14)
    shape = r.choice(['flat', 'nested', 'mixed'])
    lines = []
    for i in range(n):
        if shape == 'flat' or (shape == 'mixed' and i % 2):
            lines.append(f'(assert (f{i} a{i} b{i}))')
        else:
            lines.append(f'(assert (g{i} (h{i} a{i}) (k{i} b{i} c{i})))')
    if r.random() < 0.5:
        # top-level leaves: erasing one removes no s-expression
        for k in range(r.randint(1, 4)):
            lines.insert(r.randint(0, len(lines)),
                         r.choice([f'stray{k}', f'"top {k}"', f':kw{k}']))
    text = '\n'.join(lines) + '\n(check-sat)\n'
    pred = r.choice(['all', 'all', 'has:check-sat', 'hash:4:0,1,2'])
    d = r.choice([2000, 5000, 10000])
    rules = [realrun.rule(pred, 1, 'bug\n', '', delay_us=d),
             realrun.rule('all', 0, 'ok\n', '', delay_us=d)]
    opts = ['--strategy', r.choice(['hierarchical', 'hierarchical', 'hybrid']),
            '-j', str(r.choice([4, 8, 16])), '--timeout', '20',
            '--disable-all', '--erase-node']
    return text, rules, opts, {'input': text, 'rules': rules, 'opts': opts}


def judge(res, run, text, desc):
    prev = refreader.strip_comments(refreader.lex(text))
    k = 0
    for e in run.events:
        if e['ev'] != 'write' or e.get('text') is None:
            continue
        k += 1
        try:
            cur = refreader.strip_comments(refreader.lex(e['text']))
        except refreader.LexError:
            continue  # rendering is C07's
        res.count('real_steps_judged')
        if not is_subsequence(cur, prev):
            back = [t for t in cur if t not in set(prev)][:5]
            w = dict(desc)
            w['step'] = k
            w['before'] = ' '.join(prev)[:1500]
            w['after'] = ' '.join(cur)[:1500]
            res.violation(
                'real-run:erased-tokens-come-back',
                f'with only EraseNode enabled, accepted step #{k} of a real '
                f'run ({" ".join(desc["opts"][:4])}) is not its predecessor '
                f'with something removed' +
                (f': tokens {back} had left the input' if back else ''), w)
            return
        prev = cur


def shard(args):
    res = common.ShardResult()
    r = common.rng('c11real', args['shard'])
    base = common.scratch_dir('c11r')
    try:
        for i in range(args['n']):
            text, rules, opts, desc = make_case(r)
            wd = os.path.join(base, f'r{i}')
            run = realrun.run_ddsmt(
                wd, text, rules, opts=opts,
                launcher={'monitors': ['write'], 'write_text': True})
            shutil.rmtree(wd, ignore_errors=True)
            res.count('evaluations')
            res.count('real_runs')
            if run.timed_out or run.rc != 0:
                res.count('real_runs_failed')
                continue
            judge(res, run, text, desc)
    finally:
        shutil.rmtree(base, ignore_errors=True)
    return res.to_dict()


def run(ctx):
    n = 3 if ctx.tier == 'quick' else 80
    shards = [{'shard': i, 'n': n} for i in range(common.NCPU)]
    results = common.run_shards('checks.c11_real', shards, timeout=3400)
    common.merge_shards(ctx, results)
    if ctx.counters.get('real_steps_judged', 0) < 50:
        ctx.inconclusive_because('too few accepted steps of real runs judged')
