"""C18 - sequential runs are reproducible.

Each case (-j 1, deterministic command) is run several times under
different PYTHONHASHSEED values, command delays and LINE-level delay
injection; the sequences of contents written to the output file and the
final bytes must be identical.
"""
import os
import re
import shutil

from vlib import common, realrun, refreader, workload

LEVEL = 'exploration'

FRESH = re.compile(rb'x[0-9]+__fresh')


def canon_fresh(data):
    """Fresh names replaced by the rank of their first occurrence."""
    seen = {}
    return FRESH.sub(
        lambda m: b'x#%d__fresh' % seen.setdefault(m.group(0), len(seen)),
        data)


def make_case(r):
    kind = r.choice(['general', 'fresh', 'fresh', 'vars', 'rename', 'enum',
                     'cc-delay', 'fresh-parse-id', 'str-contains'])
    cc_rules = None
    if kind == 'general':
        s = workload.small_script(r, r.choice(['small', 'medium']))
        text = workload.render_with_noise(r, s.nested(), comments=False)
        rules, pred = workload.pick_spec(
            r, text, families=['hash', 'has', 'count', 'ntok', 'subseq'])
        extra = []
    elif kind == 'fresh':
        # fresh variables must survive into the output: a solver-like
        # predicate keeps declarations alive, few mutators are enabled
        n = r.randint(2, 5)
        lines = ['(set-logic QF_LIA)']
        for i in range(n):
            lines.append(f'(declare-const a{i} Int)')
        for i in range(n):
            lines.append(f'(assert (> (+ a{i} (* 2 a{(i + 1) % n})) '
                         f'(- a{(i + 2) % n} {i})))')
        lines.append('(check-sat)')
        text = '\n'.join(lines) + '\n'
        k = r.randint(1, n)
        rules = realrun.simple_spec(f'scoped count:assert>={k} & '
                                    f'count:%2B>=1 ! &')
        pred = rules[0]
        extra = ['--disable-all', '--introduce-fresh-variables',
                 '--replace-by-variable', '--substitute-children']
        if r.random() < 0.5:
            extra += ['--erase-node']
    elif kind == 'fresh-parse-id':
        # The fresh variable is introduced for a term T = (+ a b) of the
        # *first* assertion that no accepted step ever rebuilds (everything
        # else that is accepted erases something after it or beside it), so
        # the node id in its name is the one the parser gave: identical in
        # every run.  In this family even a difference in the digits of a
        # fresh name is a violation (the open finding 9.3 concerns nodes
        # rebuilt by a worker).
        k = r.randint(2, 6)
        lines = ['(declare-const a Int)', '(declare-const b Int)',
                 '(assert (> (+ a b) 0))']
        for i in range(k):
            lines.append(r.choice([f'(assert (< (* a {i + 2}) b))',
                                   f'(assert (distinct a (- b {i})))',
                                   f'(assert (>= (* 2 (+ b {i})) a))']))
        lines.append('(check-sat)')
        text = '\n'.join(lines) + '\n'
        # '>' and the declarations have to stay (without them T has no
        # sort and no fresh variable is proposed)
        rules = realrun.simple_spec(
            'subseq:%3E,%28,%2B,a,b,%29 subseq:%3E,x%23__fresh | '
            'subseq:declare-const,a,Int,declare-const,b,Int &')
        pred = rules[0]
        extra = ['--disable-all', '--introduce-fresh-variables',
                 '--erase-node']
    elif kind == 'str-contains':
        # names that a strings mutator invents for the pieces of a compound
        # term (strategy ddmin at -j 1 runs in one thread of one process:
        # node ids, which the names are made of, are the same in every run)
        a, b, c = r.sample(['a', 'b', 'c', 'sv', 'tw'], 3)
        lines = ['(set-logic QF_SLIA)'] + [
            f'(declare-const {v} String)' for v in (a, b, c)] + [
            f'(assert (str.contains (str.++ {a} {b}) {c}))',
            f'(assert (str.contains (str.++ {b} "x" {a}) "x"))',
            '(check-sat)']
        text = '\n'.join(lines) + '\n'
        rules = realrun.simple_spec(
            'scoped has:str.%2B%2B & count:declare-const>=3 & '
            'count:assert>=2 &')
        pred = rules[0]
        extra = ['--disable-all', '--str-contains-to-concat']
        if r.random() < 0.5:
            extra += ['--erase-node']
    elif kind == 'enum':
        # enumeration datatype: several default constants of one sort, the
        # command accepts more than one of them
        cons = r.sample(['red', 'green', 'blue', 'cyan', 'pink', 'grey',
                         'teal', 'plum'], r.randint(3, 4))
        n = r.randint(2, 3)
        lines = ['(declare-datatype Color (' +
                 ' '.join(f'({c})' for c in cons) + '))']
        for i in range(n):
            lines.append(f'(declare-const e{i} Color)')
        for i in range(n):
            lines.append(f'(assert (= e{i} e{(i + 1) % n}))')
            lines.append(f'(assert (distinct e{i} {r.choice(cons)}))')
        lines.append('(check-sat)')
        text = '\n'.join(lines) + '\n'
        # nothing may be erased (token count is kept), so only replacements
        # of one leaf by another survive, e.g. by a default constant
        ntok = len(workload.tokens_of(text)) - r.choice([0, 0, 4])
        rules = realrun.simple_spec(
            f'ntok>={ntok} has:declare-datatype &')
        pred = rules[0]
        extra = r.choice([[], ['--disable-all', '--constants',
                               '--erase-node']])
    elif kind == 'cc-delay':
        # a cross-check command with its own, larger time limit: how long it
        # takes (below that limit) must not matter
        lines = ['(declare-const a Int)', '(declare-const b Int)',
                 '(assert (> a 0))', '(assert (< b a))', '(check-sat)']
        text = '\n'.join(lines) + '\n'
        rules = realrun.simple_spec('count:assert>=1 has:a &')
        pred = rules[0]
        cc_rules = 'cc'
        extra = ['--disable-all', '--erase-node', '--timeout-cc', '8']
    elif kind == 'vars':
        n = r.randint(4, 8)
        names = [f'{r.choice("pqrs")}{i}' for i in range(n)]
        r.shuffle(names)
        lines = ['(set-logic QF_LIA)'] + [
            f'(declare-const {v} Int)' for v in names
        ]
        for i in range(n):
            lines.append(f'(assert (< {names[i]} {names[(i + 3) % n]}))')
        lines.append('(check-sat)')
        text = '\n'.join(lines) + '\n'
        m = r.choice([2, 3])
        rules = realrun.simple_spec(
            f'hash:{m}:0 count:assert>=1 & count:%3C>=1 &')
        pred = rules[0]
        extra = []
    else:
        s = workload.small_script(r, 'small', theories=['core', 'ints', 'uf',
                                                        'let'])
        text = workload.render_with_noise(r, s.nested(), comments=False)
        rules, pred = workload.pick_spec(r, text, families=['scoped', 'hash'])
        extra = ['--disable-all', '--simplify-symbol-names', '--erase-node',
                 '--replace-by-variable']
    strat = r.choice(workload.STRATEGIES)
    if kind == 'fresh-parse-id':
        strat = r.choice(['hierarchical', 'hierarchical', 'hybrid'])
    if kind == 'str-contains':
        strat = 'ddmin'
    opts = ['--strategy', strat, '-j', '1', '--timeout',
            '0.4' if kind == 'cc-delay' else '20'] + extra + \
        workload.format_options(r)
    return text, rules, opts, {'input': text, 'rules': rules, 'kind': kind,
                               'strategy': strat, 'opts': opts,
                               'cc': cc_rules is not None}


def variants(r):
    return [
        dict(hashseed='0', delay=None, inj=None),
        dict(hashseed='1', delay=(r.randint(1, 999), 3000), inj=None),
        dict(hashseed=str(r.randint(2, 4_000_000)), delay=None,
             inj={'seed': r.randint(0, 10**6), 'prob': 0.1, 'max_ms': 3}),
        dict(hashseed='0', delay=(r.randint(1, 999), 8000),
             inj={'seed': r.randint(0, 10**6), 'prob': 0.3, 'max_ms': 2}),
    ]


def run_case(res, base, case, r, idx):
    text, rules, opts, desc = case
    runs = []
    for k, v in enumerate(variants(r)):
        cfg = {'monitors': ['write', 'mut'], 'write_text': True}
        if v['inj']:
            cfg['delay'] = v['inj']
        wd = os.path.join(base, f'c{idx}_{k}')
        cc_spec = None
        if desc.get('cc'):
            # the cross check takes 0 / 0.6 s per candidate in the variants:
            # always below its own limit (8 s), in half of the variants above
            # the *main* command's limit (0.4 s)
            d_us = 600000 if k % 2 else 0
            cc_spec = [realrun.rule('has:declare-const', 0, 'cc ok\n', '',
                                    delay_us=d_us),
                       realrun.rule('all', 3, 'cc other\n', '',
                                    delay_us=d_us)]
        run = realrun.run_ddsmt(wd, text, rules, opts=opts, launcher=cfg,
                                hashseed=v['hashseed'],
                                delay=None if desc.get('cc') else v['delay'],
                                cc_spec=cc_spec)
        res.count('evaluations')
        shutil.rmtree(wd, ignore_errors=True)
        if run.timed_out or run.rc != 0 or run.uncaught_traceback:
            res.count('runs_failed')
            return None
        ws = sorted((e for e in run.events if e['ev'] == 'write'),
                    key=lambda e: e['seq'])
        chain = [e['bd'] for e in ws]
        fresh_seen = next((i for i, e in enumerate(ws)
                           if e.get('has_fresh')), None)
        runs.append((v, chain, run.out_bytes, fresh_seen,
                     [e.get('text') for e in ws],
                     [(e['strategy'], e['passes']) for e in run.events
                      if e['ev'] == 'passes']))
    ref = runs[0]
    res.count('cases')
    res.add_set('chain_lengths', len(ref[1]))
    if ref[2] and FRESH.search(ref[2]):
        res.count('cases_with_fresh_names_in_output')
        if desc.get('kind') == 'fresh-parse-id':
            res.count('cases_with_parse_time_fresh_name_in_output')
    if len(ref[1]) >= 2:
        res.add_distinct(common.digest(text + repr(rules) + repr(opts)))
    for v, chain, out, fresh_seen, texts, passes in runs[1:]:
        res.count('pairs_compared')
        # the order in which the mutators are scheduled is part of what a
        # sequential run does: it must not depend on the hash seed either
        if passes != ref[5]:
            res.count('schedules_compared')
            w = dict(desc)
            w.update({'variant': v, 'reference_variant': ref[0],
                      'schedule_reference': ref[5], 'schedule_variant': passes})
            res.violation(
                'nondeterministic-schedule',
                f'two -j1 runs schedule their mutators in different orders '
                f'(variant {v} vs {ref[0]})', w)
            break
        res.count('schedules_compared')
        if chain != ref[1] or out != ref[2]:
            # first differing write
            d = next((i for i, (x, y) in enumerate(zip(chain, ref[1]))
                      if x != y), min(len(chain), len(ref[1])))
            a = FRESH.sub(b'x#__fresh', ref[2] or b'')
            b = FRESH.sub(b'x#__fresh', out or b'')
            # Once a fresh variable x<id>__fresh has been written, its id
            # (timing dependent, known finding) may be shortened by
            # SimplifySymbolNames (x42__fresh -> 42) and steer later
            # acceptances; a divergence that starts at or after the first
            # write containing a fresh name is attributed to that mechanism,
            # any earlier divergence is not.
            firsts = [x for x in (fresh_seen, ref[3]) if x is not None]
            after_fresh = bool(firsts) and d >= min(firsts)
            key = ('fresh-name-depends-on-timing'
                   if a == b or after_fresh else 'nondeterministic-chain')
            if desc.get('kind') == 'fresh-parse-id':
                key = 'nondeterministic-chain:fresh-name-of-untouched-node'
            # The known mechanism changes the digits of fresh names and
            # nothing else: at the first write that differs, the two files
            # are then equal up to a *consistent* renaming of the fresh
            # variables.  Equal only when the names are blanked out, but not
            # under any renaming (two declarations in the other order, two
            # uses exchanged) is another mechanism.
            if d < len(texts) and d < len(ref[4]) and texts[d] is not None \
                    and ref[4][d] is not None:
                ta, tb = ref[4][d].encode(), texts[d].encode()
                if FRESH.sub(b'x#__fresh', ta) == FRESH.sub(b'x#__fresh', tb) \
                        and canon_fresh(ta) != canon_fresh(tb):
                    key = ('nondeterministic-chain:'
                           'fresh-names-not-a-consistent-renaming')
            w = dict(desc)
            w.update({'variant': v, 'reference_variant': ref[0],
                      'first_differing_write': d + 1,
                      'chain_lengths': [len(ref[1]), len(chain)],
                      'output_reference': (ref[2] or b'').decode(
                          'utf-8', 'replace')[:1500],
                      'output_variant': (out or b'').decode(
                          'utf-8', 'replace')[:1500]})
            res.violation(
                key, f'two -j1 runs differ from write #{d + 1} on '
                f'(variant {v} vs {ref[0]})', w)
            break
    return runs


def shard(args):
    res = common.ShardResult()
    r = common.rng('c18', args['shard'])
    base = common.scratch_dir('c18')
    try:
        for i in range(args['n']):
            case = make_case(r)
            runs = run_case(res, base, case, r, i)
            if i < 1 and runs:
                res.sample({'input': case[0][:600], 'rules': case[1],
                            'opts': case[2],
                            'writes': len(runs[0][1]),
                            'output': (runs[0][2] or b'').decode()[:400]})
    finally:
        shutil.rmtree(base, ignore_errors=True)
    return res.to_dict()


def run(ctx):
    n = 3 if ctx.tier == 'quick' else 40
    shards = [{'shard': i, 'n': n} for i in range(common.NCPU)]
    results = common.run_shards('checks.c18', shards, timeout=3400)
    common.merge_shards(ctx, results)
    ctx.rule = (
        'cases = input (general gen_smt / inputs built so that fresh '
        'variables survive / many same-sort variables / symbol renaming) x '
        'deterministic predicate x strategy x output format, all with -j 1; '
        'each case is run 4 times: PYTHONHASHSEED 0 / 1 / random, command '
        'delays, LINE-level delay injection in producer thread and worker; '
        'compared: the sequence of raw digests of the output file after '
        'every write, and the final bytes; distinct non-trivial = distinct '
        'cases with >= 2 writes')
    ctx.assumptions = [
        'only the written contents and the final bytes are compared (the '
        'sets of *tested* candidates may legitimately differ after a '
        'success)'
    ]
    if ctx.counters.get('pairs_compared', 0) < 10:
        ctx.inconclusive_because('too few pairs compared')
    if ctx.counters.get('cases_with_fresh_names_in_output', 0) == 0:
        ctx.inconclusive_because(
            'no case kept a fresh variable in its output')
    if ctx.counters.get('runs_failed', 0) > ctx.counters.get('cases', 0):
        ctx.inconclusive_because('too many runs failed')


def replay(data):
    res = common.ShardResult()
    base = common.scratch_dir('c18r')
    r = common.rng('c18-replay')
    try:
        for k, c in enumerate(data['cases']):
            w = c['witness']
            for rep in range(5):
                run_case(res, base, (w['input'], w['rules'], w['opts'], w),
                         r, k * 10 + rep)
    finally:
        shutil.rmtree(base, ignore_errors=True)
    for v in res.violations:
        print(v['key'], v['what'][:300])
    return 1 if res.violations else 0
