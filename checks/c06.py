"""C06 - the output file is a complete accepted input at every instant.

Fault enumeration on real runs:
 1. crash snapshots: at every LINE event (and every open/rename audit event)
    inside the dynamic extent of write_smtlib_to_file the launcher reads the
    output file from disk - what a SIGKILL there would leave and what a
    concurrent reader would see - and compares it with {previous content,
    new content};
 2. injected KeyboardInterrupt at the n-th such point of the k-th write, one
    run per point: afterwards file = W_{k-1} or W_k (complete), input
    untouched, temporary directory gone, exit status 1;
 3. real SIGINT / SIGKILL to the main pid at seeded instants (black box);
 4. a live reader polling the output file during black-box runs: everything
    it reads must be the token sequence of a candidate the command accepted;
 6. promptness: between the adoption of an accepted candidate and the start
    of the rewrite no further result is consumed (launcher markers);
 5. a sample of black-box runs under strace: the only system calls that name
    the output file are renames onto it and read-only opens.
"""
import os
import shutil
import signal

from vlib import common, realrun, refreader, workload

LEVEL = 'fault_enumeration'

EMPTY_TD = '%016x' % refreader.fnv1a([])


def make_case(r, big=False):
    if big:
        # a large output: many asserts that the predicate keeps alive
        lines = ['(set-logic QF_LIA)']
        n = r.choice([60, 120, 200])
        for i in range(n):
            lines.append(f'(declare-const keepvar{i} Int)')
        for i in range(n):
            lines.append(f'(assert (> (+ keepvar{i} {i}) (* 2 keepvar{(i * 7) % n})))')
        lines.append('(check-sat)')
        text = '\n'.join(lines) + '\n'
        k = n * r.choice([5, 8])
        rules = realrun.simple_spec(f'ntok>={k}')
        pred = f'ntok>={k}'
    else:
        script = workload.small_script(r, r.choice(['small', 'medium']))
        text = workload.render_with_noise(r, script.nested(), comments=False)
        rules, pred = workload.pick_spec(
            r, text, families=['has', 'count', 'ntok', 'all', 'hash'])
    strat = 'ddmin' if big else r.choice(workload.STRATEGIES)
    j = r.choice([1, 1, 2, 4])
    fmt = workload.format_options(r)
    opts = ['--strategy', strat, '-j', str(j), '--timeout', '20'] + fmt
    return text, rules, opts, {'input': text if len(text) < 5000 else
                               text[:2000] + '...', 'rules': rules,
                               'strategy': strat, 'jobs': j, 'format': fmt,
                               'big': big}


def make_par_case(r):
    """ddmin takes its parallel path only while there are more than 2*jobs
    subsets: many small commands, a few scattered ones have to stay."""
    n = r.choice([24, 32, 48])
    keep = sorted(r.sample(range(n), r.randint(3, 5)))
    lines = [f'(assert (f{i} a{i} (g{i} b{i})))' for i in range(n)]
    text = '\n'.join(lines) + '\n(check-sat)\n'
    pred = ' '.join(f'has:f{i}' for i in keep) + ' &' * (len(keep) - 1)
    rules = realrun.simple_spec(pred)
    j = r.choice([2, 2, 3])
    opts = ['--strategy', r.choice(['ddmin', 'ddmin', 'hybrid']), '-j',
            str(j), '--timeout', '20']
    return text, rules, opts, {'input': text, 'rules': rules,
                               'predicate': pred, 'strategy': opts[1],
                               'jobs': j, 'big': False, 'parallel_ddmin': True}


def accepted_tds(run):
    if not run.cmdlog:
        return set()
    g = run.cmdlog[0]
    golden = (g['exit'], g['out'], g['err'])
    return {x['td'] for x in run.cmdlog[1:]
            if (x['exit'], x['out'], x['err']) == golden}


def judge_file_state(res, data, allowed, key, what, witness):
    """``data``: bytes of the output file (None = absent)."""
    if data is None:
        return 'absent'
    td = refreader.token_digest(data.decode('utf-8', 'replace'))
    if td in allowed:
        return 'complete'
    state = 'EMPTY' if data == b'' else 'INCOMPLETE'
    w = dict(witness)
    w['file_state'] = state
    w['file_head'] = data[:300].decode('utf-8', 'replace')
    res.violation(key, f'{what}: the output file is {state.lower()} '
                  f'({len(data)} bytes, token digest {td} is not an accepted '
                  f'input)', w)
    return state


def snapshot_run(res, wd, case):
    """(1) crash snapshots; returns the run (events tell writes/lines)."""
    text, rules, opts, desc = case
    cfg = {'monitors': ['write'], 'snapshots': True}
    run = realrun.run_ddsmt(wd, text, rules, opts=opts, launcher=cfg)
    res.count('evaluations')
    res.count('snapshot_runs')
    if run.timed_out or run.rc != 0:
        res.count('snapshot_runs_failed')
        return run
    writes = [e for e in run.events if e['ev'] == 'write']
    res.count('writes_observed', len(writes))
    res.count('failpoints_visited', sum(w.get('lines', 0) for w in writes))
    for e in run.events:
        if e['ev'] == 'counts':
            for k, v in e['counts'].items():
                if k.startswith('snapshot_') or k == 'audit_points':
                    res.count(k, v)
                    if k.startswith('snapshot_'):
                        res.add_set('snapshot_states', k[9:])
    bad = [e for e in run.events if e['ev'] == 'bad_snapshot']
    if bad:
        b = bad[0]
        w = dict(desc)
        w['opts'] = opts
        w['bad_snapshots'] = bad[:5]
        res.violation(
            'truncate-then-write',
            f'during write #{b["seq"]} (point {b["line"]}, {b["where"]}) the '
            f'file on disk was {b["state"]}: neither the previous nor the '
            f'new accepted input ({len(bad)} such points in this run)', w)
    return run


def interrupt_runs(res, base, case, run0, r, max_points):
    """(2) one run per failpoint (k, n)."""
    text, rules, opts, desc = case
    writes = sorted([e for e in run0.events if e['ev'] == 'write'],
                    key=lambda e: e['seq'])
    if not writes:
        return
    ks = sorted({1, (len(writes) + 1) // 2, len(writes)})
    points = []
    for k in ks:
        nl = writes[k - 1].get('lines', 0)
        ns = list(range(1, nl + 1))
        if len(ns) > max_points:
            ns = sorted(r.sample(ns, max_points))
        points += [(k, n) for n in ns]
    tds = {w['seq']: w['td'] for w in writes}
    for (k, n) in points:
        wd = os.path.join(base, f'fp{k}_{n}')
        action = 'interrupt' if r.random() < 0.8 else 'kill'
        cfg = {'monitors': ['write'],
               'failpoint': {'write': k, 'line': n, 'action': action}}
        run = realrun.run_ddsmt(wd, text, rules, opts=opts, launcher=cfg,
                                timeout=45)
        res.count('evaluations')
        res.count(f'injected_{action}s')
        fired = [e for e in run.events if e['ev'] == 'failpoint']
        if run.timed_out and fired and action == 'interrupt':
            judge_hang(res, run, desc, opts,
                       f'injected interrupt at point {n} of write #{k}',
                       since=fired[0]['t'])
            shutil.rmtree(wd, ignore_errors=True)
            continue
        if not fired:
            # runs are deterministic for -j1 only; with -j>1 the k-th write
            # may differ or not happen
            res.count('failpoints_not_reached')
            shutil.rmtree(wd, ignore_errors=True)
            continue
        ws = [e for e in run.events if e['ev'] == 'write_start']
        done = [e for e in run.events if e['ev'] == 'write']
        cur = [e for e in ws if e['seq'] == k]
        allowed = set()
        if cur:
            allowed.add(cur[0]['ld'])
        prev = [e for e in done if e['seq'] == k - 1]
        if prev:
            allowed.add(prev[0]['td'])
        witness = dict(desc)
        witness.update({'opts': opts, 'failpoint': cfg['failpoint'],
                        'where': fired[0].get('where'),
                        'stdout_tail': run.stdout[-200:],
                        'stderr_tail': run.stderr[-400:]})
        st = judge_file_state(
            res, run.out_bytes, allowed, 'truncate-then-write',
            f'{action} at point {n} of write #{k} ({fired[0].get("where")})',
            witness)
        res.add_set('post_fault_states', f'{action}:{st}')
        if st == 'absent' and k > 1:
            res.violation('output-file-vanished',
                          f'{action} during write #{k}: no output file left',
                          witness)
        if not run.infile_unchanged:
            res.violation('input-file-modified',
                          'the input file was modified', witness)
        if action == 'interrupt':
            if '[ddsmt] interrupted' not in run.stdout:
                res.violation('interrupt-not-reported',
                              'no "[ddsmt] interrupted" message', witness)
            if run.rc != 1:
                res.violation('interrupt-exit-status',
                              f'exit status {run.rc} after an interrupt',
                              witness)
            left = [x for x in run.tmp_listing if x.startswith('ddsmt-')]
            if left:
                res.violation('tmpdir-left-behind',
                              f'temporary directory {left} still exists '
                              f'after the interrupt', witness)
            if run.uncaught_traceback:
                res.violation('interrupt-traceback',
                              'uncaught traceback after an interrupt',
                              witness)
        shutil.rmtree(wd, ignore_errors=True)


def anywhere_runs(res, base, case, r, npoints):
    """(7) an interrupt at *any* statement the main thread starts inside
    ddSMT's own code while a strategy is reducing (not only inside a
    rewrite): ddSMT stops, reports it, leaves exactly the last written input,
    the input file untouched and no temporary directory."""
    text, rules, opts, desc = case
    wd = os.path.join(base, 'any0')
    run0 = realrun.run_ddsmt(
        wd, text, rules, opts=opts,
        launcher={'monitors': ['write'],
                  'failpoint': {'count_anywhere': True}})
    shutil.rmtree(wd, ignore_errors=True)
    res.count('evaluations')
    tot = [e['points'] for e in run0.events if e['ev'] == 'anywhere_total']
    if run0.timed_out or run0.rc != 0 or not tot or not tot[0]:
        res.count('anywhere_calibrations_failed')
        return
    total = tot[0]
    res.count('anywhere_points_available', total)
    for n in sorted(r.sample(range(1, total + 1), min(npoints, total))):
        wd = os.path.join(base, f'any{n}')
        cfg = {'monitors': ['write'],
               'failpoint': {'anywhere': n, 'action': 'interrupt'}}
        # (the calibration run went through all statements; a run that stops
        # at one of them needs no longer, whatever the load of the machine)
        run = realrun.run_ddsmt(wd, text, rules, opts=opts, launcher=cfg,
                                timeout=max(45, 3 * run0.wall + 30))
        shutil.rmtree(wd, ignore_errors=True)
        res.count('evaluations')
        fired = [e for e in run.events if e['ev'] == 'failpoint']
        if not fired:
            res.count('failpoints_not_reached')
            continue
        res.count('injected_interrupts_anywhere')
        where = fired[0]['where']
        res.add_set('anywhere_functions', where.rsplit(':', 1)[0])
        what = f'interrupt at statement {n} of the reduction ({where})'
        if run.timed_out:
            judge_hang(res, run, desc, opts, what, since=fired[0]['t'])
            continue
        witness = dict(desc)
        witness.update({'opts': opts, 'failpoint': cfg['failpoint'],
                        'where': where, 'stdout_tail': run.stdout[-200:],
                        'stderr_tail': run.stderr[-600:]})
        if '[ddsmt] interrupted' not in run.stdout or run.rc != 1:
            res.violation(
                'interrupt-lost',
                f'{what}: ddSMT went on (exit status {run.rc}, '
                f'{"no " if "[ddsmt] interrupted" not in run.stdout else ""}'
                f'"interrupted" message)', witness)
            continue
        done = sorted((e for e in run.events if e['ev'] == 'write'),
                      key=lambda e: e['seq'])
        k = fired[0].get('writes_done', 0)
        last = [e for e in done if e['seq'] == k]
        if k == 0:
            if run.out_bytes is not None:
                res.violation('output-before-first-accepted-step',
                              f'{what}: an output file exists although '
                              f'nothing had been accepted', witness)
        elif last:
            judge_file_state(res, run.out_bytes, {last[0]['td']},
                             'output-not-last-accepted-input', what, witness)
        if not run.infile_unchanged:
            res.violation('input-file-modified',
                          'the input file was modified', witness)
        left = [x for x in run.tmp_listing if x.startswith('ddsmt-')]
        if left:
            res.violation('tmpdir-left-behind',
                          f'{what}: temporary directory {left} still exists',
                          witness)
        if run.uncaught_traceback:
            res.violation('interrupt-traceback',
                          f'{what}: uncaught traceback', witness)


def judge_hang(res, run, desc, opts, what, since=None):
    if since is not None and run.watchdog_fired_at is not None and \
            run.watchdog_fired_at - since < 20:
        # the watchdog fired shortly after the interrupt (a loaded machine,
        # a failpoint late in the run): no verdict
        res.count('runs_watchdog')
        return
    return _judge_hang(res, run, desc, opts, what)


def _judge_hang(res, run, desc, opts, what):
    """ddSMT did not exit after an interrupt; the launcher dumped the stacks
    of all threads on the harness's request (SIGUSR1)."""
    w = dict(desc)
    w.update({'opts': opts, 'stacks': run.stderr[-3500:]})
    if '_terminate_pool' in run.stderr:
        res.violation(
            'hang-after-interrupt:pool-terminate-deadlock',
            f'{what}: ddSMT never exits; the main thread waits in '
            f'multiprocessing.Pool._terminate_pool for the task handler '
            f'thread, which waits for a queue lock', w)
    elif 'Thread 0x' in run.stderr or 'Current thread' in run.stderr:
        res.violation('hang-after-interrupt:other',
                      f'{what}: ddSMT never exits', w)
    else:
        res.count('runs_watchdog')


def signal_run(res, wd, case, r):
    """(3)+(4): black-box run with a live reader and optionally a real
    signal."""
    text, rules, opts, desc = case
    signo = r.choice([None, signal.SIGINT, signal.SIGINT, signal.SIGKILL])
    after = r.choice([2, 3, 5, 8, 13, 21, 34, 55]) if signo else None
    # SIGINT runs go through the launcher *without any monitor* only so
    # that the stacks can be dumped if ddSMT does not exit afterwards
    run = realrun.run_ddsmt(wd, text, rules, opts=opts, reader=True,
                            signal_after_tests=after,
                            signal_no=signo or signal.SIGINT,
                            launcher={'monitors': []}
                            if signo == signal.SIGINT else None,
                            timeout=60 if signo else realrun.WATCHDOG)
    res.count('evaluations')
    res.count('reader_runs')
    res.count('reader_polls', run.reader_polls)
    allowed = accepted_tds(run)
    witness = dict(desc)
    witness.update({'opts': opts, 'signal': str(signo), 'after_tests': after,
                    'stdout_tail': run.stdout[-200:],
                    'stderr_tail': run.stderr[-400:]})
    if run.timed_out:
        if run.sent_signal and signo == signal.SIGINT:
            judge_hang(res, run, desc, opts,
                       f'SIGINT after test {after}')
        else:
            res.count('runs_watchdog')
        return
    for data in run.reader_seen:
        res.count('distinct_contents_seen_by_reader')
        st = judge_file_state(res, data, allowed, 'truncate-then-write',
                              'a concurrent reader opened the file', witness)
        res.add_set('reader_states', st)
    if run.sent_signal:
        name = 'SIGKILL' if signo == signal.SIGKILL else 'SIGINT'
        res.count(f'signals_{name}')
        st = judge_file_state(res, run.out_bytes, allowed,
                              'truncate-then-write',
                              f'after {name} (sent after test {after})',
                              witness)
        res.add_set('post_signal_states', f'{name}:{st}')
        if not run.infile_unchanged:
            res.violation('input-file-modified', 'input modified', witness)
        if name == 'SIGINT':
            left = [x for x in run.tmp_listing if x.startswith('ddsmt-')]
            if left and 'Exception ignored in' not in run.stderr:
                res.violation('tmpdir-left-behind',
                              f'{left} still exists after SIGINT', witness)
            if left:
                res.count('tmpdir_left_when_interrupted_during_shutdown')


def prompt_write_run(res, wd, case):
    """(6) the write follows the adoption at once: between the moment a
    strategy adopts an accepted candidate and the start of the rewrite of the
    output file no further result may be consumed (a deferred write leaves a
    stale or missing file for as long as other checks are still running)."""
    text, rules, opts, desc = case
    run = realrun.run_ddsmt(wd, text, rules, opts=opts,
                            launcher={'monitors': ['write', 'adopt']})
    res.count('evaluations')
    res.count('prompt_write_runs')
    if desc.get('parallel_ddmin'):
        res.count('prompt_write_runs_parallel_ddmin')
    if run.timed_out or run.rc != 0:
        res.count('prompt_write_runs_failed')
        return
    evs = sorted((e for e in run.events
                  if e['ev'] in ('adopt', 'consume', 'write_start')
                  and e['pid'] == run.events[0]['pid']),
                 key=lambda e: e['t'])
    pending = None
    consumed = 0
    for e in evs:
        if e['ev'] == 'adopt':
            if pending is not None and pending['ld'] != e['ld']:
                w = dict(desc)
                w['opts'] = opts
                res.violation('adopted-input-never-written',
                              'an adopted input was superseded before it '
                              'was written to the output file', w)
                break
            pending = e
            consumed = 0
            res.count('adoptions_observed')
        elif e['ev'] == 'consume' and pending is not None:
            consumed += 1
        elif e['ev'] == 'write_start' and pending is not None:
            if e['ld'] != pending['ld'] or consumed > 0:
                w = dict(desc)
                w['opts'] = opts
                w['results_consumed_before_write'] = consumed
                res.violation(
                    'write-deferred-after-adoption',
                    f'{consumed} further result(s) were consumed between '
                    f'the adoption of an accepted input and the rewrite of '
                    f'the output file ({pending["strategy"]})', w)
                break
            pending = None
    else:
        if pending is not None:
            w = dict(desc)
            w['opts'] = opts
            res.violation('adopted-input-never-written',
                          'the last adopted input was never written', w)


def strace_run(res, wd, case):
    """(5) system-call corroboration, independent of the Python-level hooks:
    the content of the output file may change only by a rename onto it."""
    import re
    import subprocess
    text, rules, opts, desc = case
    os.makedirs(wd, exist_ok=True)
    trace = os.path.join(wd, 'strace.txt')
    # run the real executable under strace through the harness: wrap argv
    run = realrun.run_ddsmt(wd, text, rules, opts=opts, argv_prefix=[
        'strace', '-f', '-qq', '-o', trace, '-e',
        'trace=openat,open,creat,rename,renameat,renameat2,unlink,unlinkat,'
        'truncate,ftruncate'])
    res.count('evaluations')
    res.count('strace_runs')
    if run.timed_out or not os.path.exists(trace):
        res.count('strace_runs_failed')
        return
    name = os.path.basename(run.outfile)
    renames = 0
    with open(trace, errors='replace') as f:
        for line in f:
            if name + '"' not in line:
                continue
            # the temporary sibling <outfile>.<pid>.tmp does not match
            # '<name>"' as a whole path component end
            m = re.search(r'(\w+)\((.*)', line)
            if not m:
                continue
            call, rest = m.group(1), m.group(2)
            target_is_out = re.search(r'"[^"]*/' + re.escape(name) + r'"',
                                      rest) is not None
            if not target_is_out:
                continue
            if call.startswith('rename'):
                # rename(old, new): only 'new' may be the output file
                parts = re.findall(r'"([^"]*)"', rest)
                if parts and parts[-1].endswith('/' + name):
                    renames += 1
                    continue
            if call in ('openat', 'open') and 'O_RDONLY' in rest and \
                    'O_TRUNC' not in rest:
                continue
            w = dict(desc)
            w['opts'] = opts
            w['syscall'] = line.strip()[:300]
            res.violation('truncate-then-write',
                          f'system call on the output file other than a '
                          f'rename onto it or a read: {line.strip()[:160]}',
                          w)
            break
    res.count('renames_onto_output_observed', renames)


def alias_run(res, wd, case, r):
    """The output path names the input file through another spelling (a
    symbolic link to its directory): whatever ddSMT does - refuse, or run and
    be interrupted - it has not written to the input file."""
    text, rules, opts, desc = case
    os.makedirs(wd, exist_ok=True)
    os.symlink(wd, os.path.join(wd, 'alias'))
    after = r.choice([None, 3, 8])
    run = realrun.run_ddsmt(wd, text, rules, opts=opts,
                            infile_name='in.smt2',
                            outfile_name='alias/in.smt2',
                            signal_after_tests=after, timeout=60)
    res.count('evaluations')
    res.count('alias_runs')
    if run.timed_out:
        res.count('runs_watchdog')
        return
    if not run.infile_unchanged:
        w = dict(desc)
        w.update({'opts': opts, 'sigint_after': after,
                  'stderr_tail': run.stderr[-400:]})
        res.violation('input-file-modified:output-path-is-an-alias',
                      'the output path reaches the input file through a '
                      'symbolic link to its directory, and the input file '
                      'was overwritten', w)


def shard(args):
    res = common.ShardResult()
    r = common.rng('c06', args['shard'])
    base = common.scratch_dir('c06')
    try:
        if args['shard'] < 3:
            case = make_case(r)
            wd = os.path.join(base, 'alias')
            alias_run(res, wd, case, r)
            shutil.rmtree(wd, ignore_errors=True)
        for i in range(args['n']):
            case = make_case(r, big=(i % 4 == 3))
            wd = os.path.join(base, f'snap{i}')
            run0 = snapshot_run(res, wd, case)
            shutil.rmtree(wd, ignore_errors=True)
            nwrites = sum(1 for e in run0.events if e['ev'] == 'write')
            if nwrites:
                res.add_distinct(common.digest(case[0] + repr(case[1:3])))
            if i % 2 == 0 and case[3]['jobs'] == 1 and not case[3]['big']:
                interrupt_runs(res, base, case, run0, r, args['points'])
            wd = os.path.join(base, f'sig{i}')
            signal_run(res, wd, case, r)
            shutil.rmtree(wd, ignore_errors=True)
            if not case[3]['big']:
                wd = os.path.join(base, f'pw{i}')
                prompt_write_run(res, wd, case)
                shutil.rmtree(wd, ignore_errors=True)
            if i % args.get('strace_every', 3) == 0 and not case[3]['big']:
                wd = os.path.join(base, f'st{i}')
                strace_run(res, wd, case)
                shutil.rmtree(wd, ignore_errors=True)
            if i == 1 and case[3]['jobs'] == 1 and not case[3]['big'] and \
                    (args['shard'] % 2 or args.get('anywhere', 0) > 5):
                anywhere_runs(res, base, case, r, args.get('anywhere', 5))
            if i == 0 and args['shard'] % 2 == 0:
                wd = os.path.join(base, f'par{i}')
                prompt_write_run(res, wd, make_par_case(r))
                shutil.rmtree(wd, ignore_errors=True)
            res.count('cases')
            if i < 1:
                res.sample({'input': case[0][:500], 'rules': case[1],
                            'opts': case[2], 'writes': nwrites})
    finally:
        shutil.rmtree(base, ignore_errors=True)
    return res.to_dict()


def run(ctx):
    n = 3 if ctx.tier == 'quick' else 24
    pts = 10 if ctx.tier == 'quick' else 40
    shards = [{'shard': i, 'n': n, 'points': pts,
               'anywhere': 5 if ctx.tier == 'quick' else 16}
              for i in range(common.NCPU)]
    results = common.run_shards('checks.c06', shards, timeout=3400)
    common.merge_shards(ctx, results)
    ctx.rule = (
        'cases = gen_smt or large synthetic input x predicate x strategy x '
        '-j{1,2,4} x {default,pretty,wrap}; per case one snapshot run (disk '
        'state read at every LINE/audit point of every rewrite), injected '
        'interrupt/kill runs at points of the first/middle/last write (-j1 '
        'cases), and a black-box run with a polling reader and a real '
        'SIGINT/SIGKILL after the k-th test; evaluations = runs; distinct '
        'non-trivial = distinct cases with >= 1 rewrite of the output file')
    ctx.assumptions = [
        'states exist at statement / system-call granularity of the writer; '
        'durability across power loss is out of scope',
        'a SIGKILL leaves what is on disk (page cache), user-space buffers '
        'are lost: modelled by reading the file through a fresh descriptor',
        'an interrupt that arrives while the interpreter is already shutting '
        'down is not ddSMT\'s to handle (counted separately)'
    ]
    ctx.judge_watchdog('evaluations')
    if ctx.counters.get('failpoints_visited', 0) == 0:
        ctx.inconclusive_because('no failpoint was visited')
    if ctx.counters.get('reader_polls', 0) == 0:
        ctx.inconclusive_because('the live reader never polled')
    if ctx.counters.get('injected_interrupts', 0) == 0:
        ctx.inconclusive_because('no interrupt was injected')
    if ctx.counters.get('injected_interrupts_anywhere', 0) == 0:
        ctx.inconclusive_because('no interrupt was injected outside a '
                                 'rewrite of the output file')


def replay(data):
    res = common.ShardResult()
    base = common.scratch_dir('c06r')
    try:
        for k, c in enumerate(data['cases']):
            w = c['witness']
            if w.get('big'):
                continue
            case = (w['input'], w['rules'], w['opts'], w)
            snapshot_run(res, os.path.join(base, f's{k}'), case)
    finally:
        shutil.rmtree(base, ignore_errors=True)
    for v in res.violations:
        print(v['key'], v['what'][:300])
    return 1 if res.violations else 0
