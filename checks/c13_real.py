"""C13 part (i): invariant hook at generator construction in real runs.

Every list handed to TaskGenerator.__init__ / Producer.__init__ (the input
from which a new round of simplifications is generated) must not contain two
positions with the same node id; every reduplicate call must keep the tokens
and leave no repeated id."""
import os
import shutil

from vlib import common, realrun, workload


def make_case(r):
    kind = r.choice(['eq', 'let', 'dt', 'empty', 'general', 'fresh', 'fresh',
                     'defs', 'lets', 'long', 'first'])
    extra = []
    if kind == 'eq':
        lines = ['(declare-const a Int)', '(declare-const b Int)',
                 '(declare-const c Int)',
                 '(assert (= a (+ b c) (* b 2)))',
                 '(assert (> (+ a a) (- a b)))', '(assert (< a (* a a)))',
                 '(check-sat)']
    elif kind == 'let':
        lines = ['(declare-const a Int)',
                 '(assert (let ((x (+ a 1)) (y (* a 2))) '
                 '(> (+ x x y) (* x y x))))',
                 '(assert (let ((z ())) (= z z ())))', '(check-sat)']
    elif kind == 'dt':
        lines = ['(declare-datatype T ((A) (B) (C (s Int))))',
                 '(declare-const t T)', '(declare-const u T)',
                 '(assert (= t u (C 1)))', '(assert (distinct t u))',
                 '(check-sat)']
    elif kind == 'fresh':
        # steps that introduce declarations (fresh variables) must be
        # accepted: a solver-like predicate and few enabled mutators
        n = r.randint(2, 4)
        lines = ['(set-logic QF_LIA)'] + [
            f'(declare-const a{i} Int)' for i in range(n)] + [
            f'(assert (> (+ a{i} (* 2 a{(i + 1) % n})) (- a{(i + 2) % n} {i})))'
            for i in range(n)] + ['(check-sat)']
        extra = ['--disable-all', '--introduce-fresh-variables',
                 '--replace-by-variable', '--substitute-children']
        if r.random() < 0.5:
            extra += ['--erase-node']
    elif kind == 'long':
        # the same long token at several places (a mangled name declared and
        # used, a wide literal twice): what the parser hands over is already
        # the input of the first round
        nm = 'an_unusually_long_name_of_a_declared_constant_' + str(
            r.randint(1000, 9999))
        lit = '#b' + ''.join(r.choice('01') for _ in range(48))
        lines = ['(set-logic QF_BV)',
                 f'(declare-const {nm} (_ BitVec 48))',
                 f'(assert (= {nm} {lit}))',
                 f'(assert (bvult (bvadd {nm} {lit}) {nm}))', '(check-sat)']
    elif kind == 'first':
        # the accepted step that puts one node at several places (a symbol
        # renamed everywhere) is generated at the *first* node of the input:
        # the next round of strategy hierarchical continues at position 0
        nm = r.choice(['abcdefgh', 'counter_value', 'tmp_result_17'])
        other = r.choice(['qrstuvwx', 'limit_value'])
        lines = [f'(declare-const {nm} Int)', f'(declare-const {other} Int)',
                 f'(assert (> {nm} 0))', f'(assert (< {nm} {other}))',
                 f'(assert (distinct {other} (+ {nm} {nm})))', '(check-sat)']
        extra = ['--disable-all', '--simplify-symbol-names'] + \
            r.choice([[], ['--erase-node'], ['--replace-by-variable']])
    elif kind == 'lets':
        # many binders, parallel ddmin, a command that accepts nothing but
        # substitutions into let bodies (the text may only grow): the last
        # accepted step of a granularity shares nodes, and the next
        # granularity ships its input to the workers again
        n = r.randint(10, 16)
        lines = ['(declare-const a Int)'] + [
            f'(assert (let ((v{i} (+ a {i}))) (> (* v{i} v{i}) (- v{i} 1))))'
            for i in range(n)] + ['(check-sat)']
        extra = ['--let-substitution'] if r.random() < 0.5 else []
    elif kind == 'defs':
        # inlining after other accepted steps: the body of an untouched
        # define-fun command is inserted into another command
        nullary = r.random() < 0.5
        lines = ['(set-logic QF_NIA)', '(declare-const a Int)',
                 '(declare-const b Int)',
                 '(define-fun f () Int (+ a (* 2 b)))' if nullary else
                 '(define-fun f ((x Int)) Int (+ x (* 2 b)))',
                 '(assert (< a 5))',
                 '(assert (> f 0))' if nullary else '(assert (> (f a) 0))',
                 '(check-sat)']
    elif kind == 'empty':
        lines = ['(declare-fun f () Int)', '(declare-fun g () Int)',
                 '(assert (= f () g ()))', '(assert (= () (() ())))',
                 '(assert (> f g))', '(check-sat)']
    else:
        s = workload.small_script(r, r.choice(['small', 'medium']))
        lines = workload.render_with_noise(r, s.nested(),
                                           comments=False).splitlines()
    text = '\n'.join(lines) + '\n'
    rules, pred = workload.pick_spec(r, text, families=['all', 'has',
                                                        'count', 'ntok',
                                                        'hash'])
    if kind == 'lets':
        ntok = len(workload.tokens_of(text))
        rules = realrun.simple_spec(f'ntok>={ntok} count:let>={n} &')
    if kind == 'defs':
        # f defined and used, or its body present twice (inlined)
        rules = realrun.simple_spec(
            'count:f>=2 count:%2A>=2 | has:define-fun & has:assert & '
            'count:%2A>=1 & count:b>=2 & count:%2B>=1 &')
    if kind == 'fresh':
        k = r.randint(1, 3)
        rules = realrun.simple_spec(
            f'scoped count:assert>={k} & count:%2B>=1 ! &')
    strat = r.choice(workload.STRATEGIES)
    j = r.choice([1, 2, 4])
    if kind == 'lets':
        strat = r.choice(['ddmin', 'hybrid'])
        j = r.choice([2, 2, 3])
    if kind == 'first':
        strat = r.choice(['hierarchical', 'hierarchical', 'hybrid'])
        rules = realrun.simple_spec(r.choice(['all', 'has:check-sat',
                                              'count:assert>=2']))
    opts = ['--strategy', strat, '-j', str(j), '--timeout', '20']
    if r.random() < 0.5:
        opts += ['--arithmetic', '--datatypes']
    opts += extra
    return text, rules, opts, {'input': text, 'rules': rules, 'kind': kind,
                               'opts': opts}


def shard(args):
    res = common.ShardResult()
    r = common.rng('c13real', args['shard'])
    base = common.scratch_dir('c13')
    try:
        for i in range(args['n']):
            text, rules, opts, desc = make_case(r)
            wd = os.path.join(base, f'r{i}')
            run = realrun.run_ddsmt(wd, text, rules, opts=opts,
                                    launcher={'monitors': ['gen', 'redup']})
            shutil.rmtree(wd, ignore_errors=True)
            res.count('evaluations')
            res.count('real_runs')
            if run.timed_out or run.rc != 0:
                res.count('real_runs_failed')
                continue
            gens = [e for e in run.events if e['ev'] == 'gen']
            reds = [e for e in run.events if e['ev'] == 'redup']
            res.count('gen_events', len(gens))
            res.count('redup_events', len(reds))
            if any(e['dups_before'] for e in reds):
                res.count('runs_where_reduplicate_removed_duplicates')
                res.add_distinct(common.digest(text + repr(rules) +
                                               repr(opts)))
            for e in gens:
                if e['dup_ids']:
                    w = dict(desc)
                    w['event'] = e
                    res.violation(
                        f'working-input-shares-ids:{e["gkind"]}',
                        f'{e["gkind"]} was constructed from an input in '
                        f'which {e["dup_ids"]} node id(s) occur at more than '
                        f'one position', w)
                    break
            for e in run.events:
                if e['ev'] == 'monitor_error':
                    res.count('monitor_errors')
                    res.add_set('monitor_errors', e['error'][:100])
                if e['ev'] != 'gen_shipped':
                    continue
                res.count('shipped_inputs_checked')
                # identities have to be pairwise distinct where a round is
                # generated (TaskGenerator.__init__); after an acceptance
                # inside a round (update) the adopted input legitimately
                # shares nodes until the round ends and is re-duplicated
                if (e['dup_ids'] and e['where'].endswith('__init__')) or \
                        not e['same_ids'] or not e['same_tokens']:
                    w = dict(desc)
                    w['event'] = e
                    res.violation(
                        'input-shipped-to-workers-is-not-the-working-input',
                        f'at {e["where"]} the input pickled for the workers '
                        f'has {e["dup_ids"]} repeated node id(s), same '
                        f'tokens: {e["same_tokens"]}, same identities as '
                        f'the input of the round: {e["same_ids"]}', w)
                    break
            for e in reds:
                res.cmax('max_duplicates_before_reduplicate',
                         e['dups_before'])
                if e['dups_after'] or not e['same_tokens']:
                    w = dict(desc)
                    w['event'] = e
                    res.violation(
                        'reduplicate-in-run',
                        f'reduplicate left {e["dups_after"]} repeated ids / '
                        f'same tokens: {e["same_tokens"]}', w)
                    break
    finally:
        shutil.rmtree(base, ignore_errors=True)
    return res.to_dict()


def run(ctx):
    n = 5 if ctx.tier == 'quick' else 120
    shards = [{'shard': i, 'n': n} for i in range(common.NCPU)]
    results = common.run_shards('checks.c13_real', shards, timeout=3400)
    common.merge_shards(ctx, results)
    if ctx.counters.get('monitor_errors', 0):
        ctx.inconclusive_because('a monitor failed: ' +
                                 str(ctx.extra.get('monitor_errors')))
    if ctx.counters.get('shipped_inputs_checked', 0) == 0:
        ctx.inconclusive_because('no input shipped to workers was observed')
    if ctx.counters.get('gen_events', 0) == 0:
        ctx.inconclusive_because('no generator construction was observed')
    if ctx.counters.get('runs_where_reduplicate_removed_duplicates', 0) == 0:
        ctx.inconclusive_because(
            'no real run produced shared subtrees (hook never saw the '
            'dangerous situation)')
