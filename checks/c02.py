"""C02 - the hierarchical/hybrid result is a fixed point of every enabled
mutator.

Observer (i): inside the real process, right after
strategy_hierarchical.reduce() returned, vlib.sweep re-enumerates every
proposal of every enabled mutator (default instances of all enabled classes
and the configured instances of all passes) on the final input and runs the
real checker on each; any acceptance is a violation.
Observer (ii): a second real run (--strategy hierarchical, same group flags)
on the output must report 'unable to minimize input file'.
"""
import os
import shutil

from vlib import common, realrun, refreader, workload

LEVEL = 'exploration'

GROUPS = ['arithmetic', 'bv', 'boolean', 'core', 'datatypes', 'fp', 'smtlib',
          'strings']


def make_case(r):
    s = workload.small_script(r, r.choice(['tiny', 'small', 'small',
                                           'medium']))
    text = workload.render_with_noise(r, s.nested(), comments=False)
    # inputs with several asserts between declarations and check-sat are
    # what the prelude passes work on
    if r.random() < 0.3:
        n = r.randint(4, 9)
        lines = ['(declare-const k Int)'] + [
            f'(assert (> k {i}))' for i in range(n)] + ['(check-sat)']
        text = '\n'.join(lines) + '\n'
    rules, pred = workload.pick_spec(r, text, families=[
        'has', 'has2', 'count', 'subseq', 'hash', 'ntok', 'scoped', 'nothas',
        'depth'])
    if r.random() < 0.2:
        # parity-like predicates defeat greedy reduction orders
        t = realrun.pct(r.choice(['assert', '(', 'declare-const']))
        k = r.randint(1, 3)
        rules = realrun.simple_spec(
            f'count:{t}>={k} count:{t}>={k + 2} ! & hash:2:0 |')
    chain = None
    set_digests = None
    if r.random() < 0.3:
        # dependency chain: command d_i can only be removed after d_{i+1}
        # (a later BFS node) is gone, so a sweep that found a reduction has
        # to be followed by another one from the start
        n = r.randint(4, 9)
        kind = r.choice(['decl', 'string', 'quoted'])
        if kind == 'decl':
            lines = [f'(declare-const d{i} Int)' for i in range(n)]
            toks = [f'd{i}' for i in range(n)]
        elif kind == 'string':
            # only the late mutator StringSimplifyConstant can make "" appear
            lines = ['(declare-const s String)'] + [
                f'(assert (= s "lit{i}"))' for i in range(n)]
            toks = None
        else:
            lines = [f'(declare-const |q{i}| Int)' for i in range(n)]
            toks = [f'|q{i}|' for i in range(n)]
        text = '\n'.join(lines + ['(check-sat)']) + '\n'
        q = realrun.pct
        if toks:
            conj = []
            for i in range(n - 1):
                # has(d_{i+1}) -> has(d_i)
                conj.append(f'has:{q(toks[i + 1])} ! has:{q(toks[i])} |')
            pred = conj[0]
            for c in conj[1:]:
                pred += f' {c} &'
            pred += ' has:check-sat &'
        else:
            # the declaration may only go once some literal has become ""
            pred = 'has:s has:%22%22 | has:check-sat &'
        rules = realrun.simple_spec(pred)
        chain = kind
    if chain is None and r.random() < 0.12:
        # A step that only a mutator of the *last* pass can make (unquoting
        # a symbol, emptying a string literal) and that comes late in the
        # input makes it possible to erase an *earlier* command: the last
        # pass has to start over after its last success.
        # Exactly one candidate is acceptable (both occurrences renamed at
        # once), so that with a slow accepted candidate no second success
        # and no aborted task follows the success.
        q = realrun.pct
        old_name, new_name = r.choice([('ab', 'a'), ('ab', 'b'),
                                       ('wxyz', 'wx'), ('|u v|', '|u |')])
        lines = ['(declare-const keep Int)',
                 f'(declare-const {old_name} Int)',
                 f'(assert (> {old_name} 0))']
        a = f'count:{q(old_name)}>=2 has:keep &'
        b = f'count:{q(new_name)}>=2'
        for _ in range(r.randint(0, 3)):
            lines.insert(r.randint(0, 1), '(set-info :status sat)')
        text = '\n'.join(lines + ['(check-sat)']) + '\n'
        pred = (f'{a} {b} | has:check-sat & has:assert & '
                f'count:declare-const>=1 &')
        rules = realrun.simple_spec(pred)
        chain = 'late'
    if chain is None and r.random() < 0.2:
        # Indexed identifiers and a grep-like command: the numerals of
        # (_ bv5 8) or (_ extract 7 0) leave their context when '_' is erased
        # or the list is replaced by a child; whatever ddSMT remembered
        # about them must not outlive the input it was collected from (the
        # second run, a fresh process, is the judge)
        w = r.choice([4, 8, 16])
        n1, k1, k2 = r.randint(2, 9), r.randint(2, 7), r.randint(2, 5)
        forms = [(f'(_ bv{n1} {w})', f'bv{n1}', str(w)),
                 (f'((_ extract {w - 1} {r.randint(1, w - 2)}) v)',
                  'extract', str(w - 1)),
                 (f'((_ zero_extend {k1}) v)', 'zero_extend', str(k1)),
                 (f'((_ rotate_left {k1}) v)', 'rotate_left', str(k1)),
                 (f'((_ repeat {k2}) v)', 'repeat', str(k2))]
        picked = r.sample(forms, r.randint(1, 3))
        simple = r.random() < 0.5
        if simple:
            # the plain case: one constant, nothing else that could supply
            # a token '1'
            picked = [forms[0]]
        lines = [f'(declare-const v (_ BitVec {w}))'] + [
            f'(assert (distinct v {t}))' if k.startswith('bv')
            or k == 'rotate_left'
            else f'(assert (= #b1 ((_ extract 0 0) {t})))'
            for t, k, _ in picked] + ['(check-sat)']
        text = '\n'.join(lines) + '\n'
        # the name has to stay, and the numeral that was its index may only
        # stay as it is or become 1 (what Constants proposes for a numeral
        # outside an index position; halving it is not accepted), and so
        # many tokens have to stay that it is not simply erased
        _, name, num = r.choice(picked)
        ntok = len(workload.tokens_of(text))
        pred = (f'has:{realrun.pct(name)} has:{num} has:1 | & '
                f'ntok>={8 if simple else r.randint(ntok // 4, ntok // 2)} &')
        rules = realrun.simple_spec(pred)
        chain = 'indexed'
    if chain is None and r.random() < 0.1:
        # The last step of the ddmin phase is a leaf-for-leaf substitution
        # that puts one node at several places (a symbol renamed everywhere)
        # and removes no expression; the hierarchical phase starts from that
        # input and has to find the replacement of the renamed symbol by a
        # constant (judged by a fresh process: second run)
        old_name, new_name = r.choice([('ab', 'a'), ('xy', 'x'),
                                       ('ab', 'b'), ('k10', 'k1')])
        c = r.choice(['5', '7', '12'])
        two = r.random() < 0.5

        def script(name, first, second):
            t = f'(declare-const {name} Int)\n(assert (> {first} {c}))\n'
            if two:
                t += f'(assert (< {second} {c}))\n'
            return t

        text = script(old_name, old_name, old_name)
        # the command knows exactly these inputs (a whitelist, so that the
        # order of the steps is forced: rename first, constants afterwards)
        white = [text, script(new_name, new_name, new_name),
                 script(new_name, '0', new_name),
                 script(new_name, new_name, '0'),
                 script(new_name, '0', '0')]
        set_digests = sorted({refreader.token_digest(t) for t in white})
        rules = [realrun.rule('set:@SETFILE@', 1, 'bug\n', ''),
                 realrun.rule('all', 0, 'ok\n', '')]
        chain = 'rename'
    if chain is None and r.random() < 0.08:
        # A name that was declared when the hierarchical phase began is gone
        # by the time a mutator invents it anew: T0 declares v and _v; only
        # T0, T1 (the first three commands of T0: several commands go at
        # once, which only the binary reduction of the hierarchical phase
        # proposes) and T2 (bit-width of v reduced through a new constant
        # _v) are accepted.  Whatever the worker processes remember about
        # the input they were started with must not keep T2 from being
        # found.
        v = r.choice(['v', 'w', 'x1', 'bv_var'])
        w = r.choice([8, 16, 32])
        rel = r.choice(['=', 'bvule', 'bvsge'])
        t0 = (f'(set-logic QF_BV)\n(declare-const {v} (_ BitVec {w}))\n'
              f'(assert ({rel} {v} {v}))\n'
              f'(declare-const _{v} (_ BitVec {w}))\n'
              f'(assert ({rel} _{v} _{v}))\n(check-sat)\n(exit)\n')
        t1 = (f'(set-logic QF_BV)\n(declare-const {v} (_ BitVec {w}))\n'
              f'(assert ({rel} {v} {v}))\n')
        t2 = (f'(set-logic QF_BV)\n(declare-const _{v} (_ BitVec 1))\n'
              f'(define-fun {v} () (_ BitVec {w}) ((_ zero_extend {w - 1}) '
              f'_{v}))\n(assert ({rel} {v} {v}))\n')
        text = t0
        set_digests = sorted({refreader.token_digest(t)
                              for t in (t0, t1, t2)})
        rules = [realrun.rule('set:@SETFILE@', 1, 'bug\n', ''),
                 realrun.rule('all', 0, 'ok\n', '')]
        chain = 'reborn'
    if chain is None and r.random() < 0.15:
        # A proposal that only the first (prelude) pass can make - binary
        # reduction restricted to assert commands - becomes applicable after
        # a later pass changed the input: 5 asserts; accepted are exactly all
        # five, the four without the third, and the last two (a section of
        # the assert list of the 4-assert input, but of no other list).
        n = 5
        lines = ['(declare-const k Int)'] + [
            f'(assert (> k m{i}))' for i in range(1, n + 1)] + ['(check-sat)']
        text = '\n'.join(lines) + '\n'

        def conj(present, absent, ntok, nassert):
            terms = [f'has:m{i}' for i in present] + [
                f'has:m{i} !' for i in absent]
            p = terms[0]
            for t in terms[1:]:
                p += f' {t} &'
            return (p + f' ntok>={ntok} & ntok<={ntok} & '
                    f'count:assert>={nassert} &')

        alts = [conj([1, 2, 3, 4, 5], [], 48, 5),
                conj([1, 2, 4, 5], [3], 40, 4),
                conj([4, 5], [1, 2, 3], 24, 2)]
        pred = alts[0]
        for a in alts[1:]:
            pred += f' {a} |'
        pred += ' has:declare-const & has:check-sat &'
        rules = realrun.simple_spec(pred)
        chain = 'prelude'
    strat = r.choice(['hierarchical', 'hybrid'])
    if chain and chain not in ('indexed', 'rename', 'reborn'):
        strat = 'hierarchical'
    if chain in ('rename', 'reborn'):
        strat = 'hybrid'
    j = r.choice([1, 2, 4, 8])
    slow_accept = False
    if chain == 'late':
        j = r.choice([2, 2, 4])
    if chain in ('decl', 'string', 'quoted', 'late') and j >= 2 and (
            r.random() < 0.7 or chain == 'late'):
        # the accepted candidate is slow and everything else fast: with
        # several workers the success is the *last* result of its sweep to
        # arrive (no later result follows it)
        # (slower than the generation of a whole sweep on these inputs)
        rules = [realrun.rule(pred, 1, 'bug\n', '',
                              delay_us=400000 if chain == 'late' else 120000),
                 realrun.rule('all', 0, 'ok\n', '')]
        slow_accept = True
    # explicit group flags: theory detection must not differ between the
    # two runs of observer (ii)
    groups = []
    for g in GROUPS:
        on = r.random() < 0.75 or g in ('core', 'smtlib')
        groups.append(f'--{g}' if on else f'--no-{g}')
    toggles = []
    if chain == 'prelude':
        groups = [f'--no-{g}' if g != 'core' else '--core' for g in GROUPS]
    elif chain == 'reborn':
        groups = [f'--{g}' for g in GROUPS]
    elif chain and chain not in ('indexed', 'rename') and r.random() < 0.5:
        groups = [f'--no-{g}' for g in GROUPS] + ['--erase-node']
        if chain == 'string':
            groups += ['--str-constants']
        if chain == 'quoted':
            groups += ['--simplify-quoted-symbols']
    if r.random() < 0.4 and not chain:
        from vlib import dd
        ns = dd.load()
        allopts = [opt for (_, _, opt, _) in
                   dd.all_mutator_classes(ns).values()]
        for o in r.sample(allopts, r.randint(1, 6)):
            toggles.append(f'--no-{o}')
    opts = ['--strategy', strat, '-j', str(j), '--timeout', '20'] + groups + \
        toggles
    inj = {'seed': r.randint(0, 10**6), 'prob': r.choice([0.02, 0.1]),
           'max_ms': 2} if r.random() < 0.6 else None
    delay = (r.randint(1, 999), r.choice([500, 3000])) \
        if r.random() < 0.5 else None
    if slow_accept:
        inj = None
        delay = None
    return text, rules, opts, inj, delay, {
        'set_digests': set_digests if chain in ('rename', 'reborn') else None,
        'input': text, 'rules': rules, 'strategy': strat, 'jobs': j,
        'inject': inj, 'delay': delay, 'mutator_options': groups + toggles,
        'chain': chain, 'slow_accept': slow_accept}


def classify(acc):
    m = acc['mutator']
    if "('ident'" in m:
        return 'prelude-only-proposal'
    return f'accepted-proposal:{m.split("[")[0]}'


def run_case(res, base, case, idx, second_run):
    text, rules, opts, inj, delay, desc = case
    cfg = {'monitors': ['exec'], 'sweep': True}
    if inj:
        cfg['delay'] = inj
    wd = os.path.join(base, f'c{idx}')
    if desc.get('set_digests'):
        os.makedirs(wd, exist_ok=True)
        setfile = os.path.join(wd, 'set.txt')
        with open(setfile, 'w') as f:
            f.write('\n'.join(desc['set_digests']) + '\n')
        rules = [x.replace('@SETFILE@', setfile) for x in rules]
    run = realrun.run_ddsmt(wd, text, rules, opts=opts, launcher=cfg,
                            delay=delay)
    res.count('evaluations')
    res.count('runs')
    if desc.get('slow_accept'):
        res.count('runs_with_slow_accepted_candidates')
    if desc.get('chain'):
        res.count('runs_chain_' + desc['chain'])
    witness = dict(desc)
    witness['opts'] = opts
    try:
        if run.timed_out:
            res.count('runs_watchdog')
            res.add_set('watchdog_stacks', run.stderr[-1800:])
            return
        if run.rc != 0 or run.uncaught_traceback:
            res.count('runs_failed')
            res.add_set('failed', run.stderr[-200:])
            return
        if any(e['ev'] == 'exec' and e.get('timed_out') for e in run.events):
            res.count('runs_with_a_timeout_skipped')
            return
        sw = [e for e in run.events if e['ev'] == 'sweep']
        if not sw:
            res.count('runs_without_sweep')
            return
        sw = sw[-1]
        res.count('sweeps')
        res.count('proposals_retested', sw['tested'])
        if sw.get('transport_failures'):
            res.count('sweeps_in_which_the_pickle_transport_failed')
        if sw.get('truncated'):
            res.count('sweeps_truncated')
        for k, v in sw['per_mutator'].items():
            res.add_set('mutators_swept', k.split('[')[0])
        if 'Starting over' in run.stderr:
            res.count('runs_with_restart')
        nacc = run.stderr.count('[ddSMT CHAT] #')
        if nacc:
            res.count('runs_that_reduced')
            res.add_distinct(common.digest(text + repr(rules) + repr(opts)))
        out_text = (run.out_bytes or b'').decode('utf-8', 'replace')
        witness['output'] = out_text[:2000]
        if sw['accepted']:
            a = sw['accepted'][0]
            witness['accepted'] = sw['accepted'][:3]
            res.violation(
                classify(a),
                f'after normal termination, the proposal of "{a["mutator"]}" '
                f'({a["kind"]}) at node {a["node"]!r} is still accepted by '
                f'the command', witness)
            return
        if (second_run or desc.get('chain') in ('indexed', 'rename',
                                                'reborn')) and \
                run.out_bytes is not None:
            res.count('second_runs')
            groups = [o for o in desc['mutator_options']]
            opts2 = ['--strategy', 'hierarchical', '-j', '1', '--timeout',
                     '20'] + groups
            run2 = realrun.run_ddsmt(os.path.join(wd, 'second'), out_text,
                                     rules, opts=opts2)
            if run2.rc == 0 and not run2.timed_out and (
                    'unable to minimize input file' not in run2.stderr
                    or run2.out_bytes is not None):
                witness['second_run_stderr'] = run2.stderr[-800:]
                witness['second_run_output'] = (run2.out_bytes or b'').decode(
                    'utf-8', 'replace')[:1500]
                first = [l for l in run2.stderr.splitlines()
                         if '[ddSMT CHAT] #1:' in l]
                name = first[0].split('#1:')[1].split('(')[0].strip() \
                    if first else '?'
                key = ('prelude-only-proposal'
                       if 'binary reduction' in (first[0] if first else '')
                       and '(assert)' in first[0] else
                       f'second-run-reduces:{name}')
                res.violation(
                    key, f'a second hierarchical run on the output still '
                    f'reduces it (first step: {first[0][-80:] if first else ""})',
                    witness)
    finally:
        shutil.rmtree(wd, ignore_errors=True)


def shard(args):
    res = common.ShardResult()
    r = common.rng('c02', args['shard'])
    base = common.scratch_dir('c02')
    try:
        for i in range(args['n']):
            case = make_case(r)
            run_case(res, base, case, i, second_run=(i % args['second'] == 0))
            if i < 1:
                res.sample({'input': case[0][:500], 'rules': case[1],
                            'opts': case[2]})
    finally:
        shutil.rmtree(base, ignore_errors=True)
    return res.to_dict()


def run(ctx):
    n = 12 if ctx.tier == 'quick' else 250
    shards = [{'shard': i, 'n': n, 'second': 3 if ctx.tier == 'quick' else 2}
              for i in range(common.NCPU)]
    results = common.run_shards('checks.c02', shards, timeout=3400)
    common.merge_shards(ctx, results)
    ctx.rule = (
        'real runs (hierarchical/hybrid, -j{1,2,4,8}, explicit group flags, '
        'random disabled mutators, command delays, LINE-level delay '
        'injection) on gen_smt scripts and assert-chains with predicates '
        'has/count/subseq/hash/ntok/scoped/depth/parity, dependency chains '
        '(a later node must go first; with -j>=2 in part with a slow '
        'accepted candidate, so that the success is the last result of its '
        'sweep); after reduce() the '
        'in-process sweep re-tests every proposal of every enabled mutator '
        'on the final input; every 2nd-3rd run is followed by a second '
        'hierarchical run on the output; distinct non-trivial = distinct '
        'cases in which ddSMT accepted at least one simplification')
    ctx.assumptions = [
        'the sweep mirrors what ddSMT does with a proposal (pickle round '
        'trip, apply_simp, an exception costs that candidate)',
        'runs in which any command invocation timed out are skipped '
        '(a timeout would be a spurious rejection)'
    ]
    if ctx.counters.get('sweeps', 0) < 10:
        ctx.inconclusive_because('too few sweeps')
    if ctx.counters.get('proposals_retested', 0) == 0:
        ctx.inconclusive_because('the sweep re-tested nothing')
    ctx.judge_watchdog('runs')


def replay(data):
    res = common.ShardResult()
    base = common.scratch_dir('c02r')
    try:
        for k, c in enumerate(data['cases']):
            w = c['witness']
            case = (w['input'], w['rules'], w['opts'], w.get('inject'),
                    w.get('delay'), w)
            run_case(res, base, case, k, True)
    finally:
        shutil.rmtree(base, ignore_errors=True)
    for v in res.violations:
        print(v['key'], v['what'][:300])
    return 1 if res.violations else 0
