"""C08 - the reader tokenises SMT-LIB text as the standard prescribes.

Oracle: vlib.refreader (independent reader) vs. list(nodeio.parse_smtlib(t)).
Workload: (1) exhaustive enumeration of ordered pairs of lexeme classes x
separators x positions; (2) random texts from gen_lex.
"""
import itertools

from vlib import common, gen_lex, refreader

LEVEL = 'exploration'

CLASSES = [
    'numeral', 'decimal', 'hex', 'bin', 'string', 'symbol', 'quoted',
    'keyword', 'list', 'emptylist', 'comment'
]
SEPS = ['', ' ', '\t', '\n', '\r', '\r\n', '  ', ' \n\t', '\n\r']
POSITIONS = ['top', 'first', 'middle', 'last', 'only', 'nested']
FINALS = ['', '\n', ' ', '\r\n']


def representative(cls, k):
    reps = {
        'numeral': ['0', '42'],
        'decimal': ['1.5', '0.0'],
        'hex': ['#xA0', '#xff'],
        'bin': ['#b01', '#b1'],
        'string': ['"s t"', '"a""b (;"', '""', '"\n"'],
        'symbol': ['abc', '+', 'a-b', '<=', 'x.y'],
        'quoted': ['|q r|', '|(; "|', '||', '|\n|'],
        'keyword': [':kw', ':a-b'],
        'list': [['in'], ['in', ['deep']]],
        'emptylist': [[]],
        'comment': ['; c (', ';', ';"|'],
    }[cls]
    return reps[k % len(reps)]


def is_delim(x):
    return isinstance(x, list)


def build_text(a, b, sep, pos, final, tight):
    """Text in which items a and b are adjacent, separated by ``sep``, at
    position ``pos``; returns (text, expected tree) or None when the
    combination is not a legal separation."""
    a_com = refreader.is_comment(a) if not is_delim(a) else False
    b_com = refreader.is_comment(b) if not is_delim(b) else False
    if a_com:
        # a comment ends at a line break only
        if not (sep.startswith('\n') or sep.startswith('\r\n')):
            return None
    elif sep == '':
        if not (is_delim(a) or is_delim(b) or b_com
                or gen_lex.adjacent_ok(a, b)):
            return None

    def ser(x):
        return refreader.render([x]).rstrip('\n') if is_delim(x) else x

    core = ser(a) + sep + ser(b)
    lp = '(' if tight else '( '
    rp = ')' if tight else ' )'
    if b_com:
        # the comment must end before anything that follows
        end = '\n'
    else:
        end = ''
    if pos == 'top':
        text = core + end
        exp = [a, b]
    elif pos == 'first':
        text = lp + core + end + ' z' + rp
        exp = [[a, b, 'z']]
    elif pos == 'middle':
        text = lp + 'y ' + core + end + ' z' + rp
        exp = [[['y', a, b, 'z'][i] for i in range(4)]]
    elif pos == 'last':
        text = lp + 'y ' + core + end + rp
        exp = [['y', a, b]]
    elif pos == 'only':
        text = lp + core + end + rp
        exp = [[a, b]]
    elif pos == 'nested':
        text = '(p ' + lp + core + end + rp + ' q)'
        exp = [['p', [a, b], 'q']]
    else:
        raise ValueError(pos)
    if pos == 'top' and b_com:
        text = core + final if final in ('', '\n', '\r\n') else core + '\n'
    else:
        text = text + final
    return text, exp


def parse_dd(ns, text):
    """Returns (tree | None, exception-repr | None)."""
    try:
        res = list(ns.nodeio.parse_smtlib(text))
    except Exception as e:  # noqa
        import traceback
        tb = traceback.extract_tb(e.__traceback__)
        where = tb[-1].name if tb else '?'
        return None, f'{type(e).__name__}@{where}'
    return refreader.norm_tree(refreader.from_nodes(res)), None


def features(text, exp):
    """Known mechanisms a text can exercise (used only to classify a
    mismatch, never to decide one)."""
    f = set()
    toks = refreader.lex(text)
    # CR as separator: a CR outside literals/comments
    pos = 0
    outside = []
    for t in toks:
        i = text.index(t, pos)
        outside.append(text[pos:i])
        pos = i + len(t)
    outside.append(text[pos:])
    if any('\r' in s for s in outside):
        f.add('cr-not-whitespace')

    flat = [t for t in refreader.strip_comments(toks) if t not in '()']
    pos = 0
    for a, b in zip(toks, toks[1:]):
        i = text.index(a, pos)
        pos = i + len(a)
        if a not in '()' and b not in '()' and not refreader.is_comment(b) \
                and text[pos:pos + 1] == b[:1] and b[0] in '|"' \
                and a[0] not in '|"':
            f.add('delimiter-adjacency')

    def walk(items, top):
        for idx, it in enumerate(items):
            if isinstance(it, list):
                if it and refreader.is_comment(it[0]):
                    f.add('comment-first-in-list-hoisted')
                walk(it, False)
            elif top and not refreader.is_comment(it):
                if it[0] in '"|':
                    f.add('toplevel-literal')
                else:
                    f.add('toplevel-atom')

    walk(exp, True)
    return f


def classify(text, exp, got, exc):
    f = features(text, exp)
    if exc:
        if 'toplevel-literal' in f:
            return 'toplevel-literal-crash'
        return f'exception:{exc}'
    if 'delimiter-adjacency' in f:
        return 'token-not-ended-by-quote-or-bar'
    if 'cr-not-whitespace' in f:
        return 'cr-not-whitespace'
    if 'comment-first-in-list-hoisted' in f:
        return 'comment-first-in-list-hoisted'
    if 'toplevel-atom' in f:
        return 'toplevel-atom-at-eof-lost'
    if 'toplevel-literal' in f:
        return 'toplevel-literal'
    if 'delimiter-adjacency' in f:
        return 'token-not-ended-by-quote-or-bar'
    return 'unclassified'


def check_text(ns, res, text, exp, origin):
    ref = refreader.norm_tree(refreader.read(text))
    if exp is not None and refreader.norm_tree(exp) != ref:
        raise AssertionError(
            f'harness: generator and reference reader disagree on {text!r}')
    got, exc = parse_dd(ns, text)
    res.count('evaluations')
    res.count('tokens', len(refreader.flatten(ref)))
    if got != ref:
        key = classify(text, ref, got, exc)
        res.violation(
            key, f'parse_smtlib({text!r}) = {got!r} ({exc}); reference reader'
            f' gives {ref!r}', {
                'text': text,
                'reference': ref,
                'ddsmt': got,
                'exception': exc,
                'origin': origin
            })
        return False
    return True


def norm_eol(tree):
    """Line ends inside tokens as a text-mode reader delivers them."""
    if isinstance(tree, list):
        return [norm_eol(x) for x in tree]
    return tree.replace('\r\n', '\n').replace('\r', '\n')


def files_shard(args):
    """The reader as the executable uses it: the text comes from a *file*
    (all three line-end conventions, LF, CRLF and lone CR, also after
    comments and inside literals) and goes through ddSMT's own way of
    reading it; `ddsmt --parser-test` prints what was parsed.  Line ends
    inside literals and quoted symbols are compared modulo the convention
    (a text-mode reader may translate them)."""
    import os
    import shutil
    import subprocess
    res = common.ShardResult()
    r = common.rng('c08files', args['shard'])
    base = common.scratch_dir('c08f')
    try:
        for i in range(args['n']):
            eol = r.choice(['\n', '\r\n', '\r'])
            items = gen_lex.tree(r, depth=r.randint(1, 4),
                                 width=r.randint(2, 6),
                                 toplevel_atoms=False,
                                 cr_ok=(eol != '\n'))
            seps = [' ', '\t', eol, '  ', ' ' + eol + ' ', eol + eol]
            text = gen_lex.serialise(r, items, seps, comment_ends=(eol, ),
                                     final=eol)
            path = os.path.join(base, f'f{i}.smt2')
            with open(path, 'wb') as f:
                f.write(text.encode())
            p = subprocess.run(
                [common.PY, os.path.join(common.REPO, 'bin', 'ddsmt'),
                 '--parser-test', path, path + '.out', 'nocmd'],
                capture_output=True, env=common.child_env(), timeout=120)
            res.count('evaluations')
            res.count('files_read_by_the_executable')
            res.add_set('file_line_ends', repr(eol))
            out = p.stdout.decode('utf-8', 'replace')
            if out.endswith('None\n'):
                out = out[:-5]
            want = norm_eol(refreader.norm_tree(refreader.read(text)))
            try:
                got = norm_eol(refreader.norm_tree(refreader.read(out)))
            except refreader.LexError as e:
                got = f'unreadable ({e})'
            if p.returncode != 0 or got != want:
                res.violation(
                    'file-reader:' + {'\n': 'lf', '\r\n': 'crlf',
                                      '\r': 'cr'}[eol],
                    f'ddsmt --parser-test on a file with {eol!r} line ends '
                    f'(exit status {p.returncode}) printed {str(got)[:300]} '
                    f'for the text {text[:200]!r}; a conforming reader '
                    f'gives {str(want)[:300]}',
                    {'text': text, 'eol': eol,
                     'stderr': p.stderr.decode('utf-8', 'replace')[-400:]})
    finally:
        shutil.rmtree(base, ignore_errors=True)
    return res.to_dict()


def shard(args):
    if args['kind'] == 'files':
        return files_shard(args)
    from vlib import dd
    ns = dd.load()
    res = common.ShardResult()
    if args['kind'] == 'pairs':
        npairs = 0
        for ca, cb in itertools.product(CLASSES, CLASSES):
            seen_pair = False
            for k, sep, pos, fin, tight in itertools.product(
                    range(2), SEPS, POSITIONS, FINALS, (False, True)):
                a = representative(ca, k)
                b = representative(cb, k + 1)
                bt = build_text(a, b, sep, pos, fin, tight)
                if bt is None:
                    continue
                text, exp = bt
                check_text(ns, res, text, exp, f'pair:{ca},{cb},{pos}')
                res.add_distinct(common.digest(text))
                res.add_set('separators', repr(sep))
                seen_pair = True
                if k == 0 and pos == 'middle' and fin == '\n' and tight:
                    res.sample({'text': text, 'expected': exp})
            if seen_pair:
                npairs += 1
                res.add_set('class_pairs', f'{ca}>{cb}')
        res.count('class_pairs_enumerated', npairs)
    else:
        r = common.rng('c08', args['shard'])
        for i in range(args['n']):
            cr = r.random() < 0.4
            items = gen_lex.tree(r,
                                 depth=r.randint(0, 5),
                                 width=r.randint(1, 6),
                                 cr_ok=cr,
                                 long_tokens=r.random() < 0.2)
            seps = gen_lex.SEPS_STD + (gen_lex.SEPS_CR if cr else [])
            text = gen_lex.serialise(r,
                                     items,
                                     seps,
                                     comment_ends=('\n', '\r\n') if cr else
                                     ('\n', ))
            if i % 40 == 7 and len(text) > 3:
                # what was read before must not matter: a text that is cut
                # off somewhere (inside a list, a literal, a quoted symbol or
                # a comment), and a reading that is abandoned half way
                cut = text[:r.randint(1, len(text) - 1)]
                try:
                    list(ns.nodeio.parse_smtlib(cut))
                except Exception:  # noqa  (how a cut text is read is not
                    pass           # judged here)
                try:
                    it = iter(ns.nodeio.parse_smtlib(text))
                    next(it, None)
                    del it
                except Exception:  # noqa
                    pass
                res.count('damaged_or_abandoned_readings_in_between')
            check_text(ns, res, text, items, f'random:{args["shard"]}:{i}')
            res.add_distinct(common.digest(text))
            res.count('random_texts')
            if i < 2:
                res.sample({'text': text, 'expected': items})
    return res.to_dict()


def run(ctx):
    nrand = 6000 if ctx.tier == 'quick' else 600000
    nsh = common.NCPU - 1
    shards = [{'kind': 'pairs'}] + [{
        'kind': 'random',
        'shard': i,
        'n': nrand
    } for i in range(nsh)]
    shards += [{'kind': 'files', 'shard': i,
                'n': 10 if ctx.tier == 'quick' else 400}
               for i in range(common.NCPU)]
    results = common.run_shards('checks.c08', shards, timeout=1500)
    common.merge_shards(ctx, results)
    ctx.rule = (
        'pairs: every ordered pair of 11 lexeme classes x 9 separators x 6 '
        'positions x 4 file endings x tight/loose parentheses (exhaustive '
        'over that grid, illegal separations skipped); random: gen_lex trees '
        '(depth<=5) serialised with random standard white space; distinct = '
        'distinct texts; all are non-trivial (>=2 lexemes) by construction; '
        'files: texts with LF / CRLF / lone-CR line ends written to files '
        'and read by the executable itself (ddsmt --parser-test)')
    ctx.exhaustive = False
    ctx.extra['pair_grid_exhaustive'] = True
    ctx.assumptions = [
        'vlib.refreader implements SMT-LIB 2.6 section 3.1 (self-tested '
        'against gen_lex, vcmd and z3)',
        'comments end at LF or CRLF; no token starts directly after another '
        'atom without white space (both unspecified/ambiguous otherwise)',
        'comment leaves are compared modulo their trailing line end',
    ]
    if ctx.counters.get('files_read_by_the_executable', 0) == 0:
        ctx.inconclusive_because('no file was read through the executable')
    if ctx.counters.get('class_pairs_enumerated', 0) < len(CLASSES)**2:
        ctx.inconclusive_because('pair enumeration incomplete')


def replay(data):
    from vlib import dd
    ns = dd.load()
    bad = 0
    for c in data['cases']:
        w = c['witness']
        got, exc = parse_dd(ns, w['text'])
        ref = refreader.norm_tree(refreader.read(w['text']))
        print(repr(w['text']), '->', got, exc, 'reference', ref)
        bad += got != ref
    return 1 if bad else 0
