"""C04 - every run completes: no internal failure on any input, meaningful
exit status.

Black-box monitor on the real executables (bin/ddsmt and python -m ddsmt):
stderr is scanned for an *uncaught* traceback, the exit status is compared
with whether minimisation ran to completion, and usage errors must give a
one-line diagnostic.  Inputs are well-formed scripts, structure-fuzzed ones
(every command/operator with every small arity), unbalanced texts, and -
through permissive predicates - every intermediate shape ddSMT reaches
itself.
"""
import copy
import os
import re
import shutil
import signal

from vlib import common, realrun, refreader, workload

LEVEL = 'exploration'

ILL_FORMED = [
    '(declare-const x)', '(declare-const)', '(declare-fun f)',
    '(declare-fun f ())', '(declare-fun f x Int)', '(define-fun f)',
    '(define-fun f ())', '(define-fun f () Int)', '(define-fun f x Int 1)',
    '(define-sort S)', '(define-sort S ())', '(let)', '(assert (let))',
    '(assert (let ()))', '(assert (let ((x))) )', '(assert (let x y))',
    '(assert (forall))', '(assert (forall ()))', '(assert (exists x y))',
    '(assert (forall ((x)) x))', '(declare-datatype T)',
    '(declare-datatype T ())', '(declare-datatype T (()))',
    '(declare-datatype T ((C (s))))', '(declare-datatypes)',
    '(declare-datatypes (()) ())', '(declare-datatypes ((T 0)) ())',
    '(declare-datatypes ((T 0)) ((())))', '(declare-datatypes (T) ((C)))',
    '(declare-datatypes x y)', '(set-logic)', '(set-info)', '(assert)',
    '()', '(())', '(assert ((_ extract 1) #b01))', '(assert ((_ extract) x))',
    '(assert (_ bv1))', '(assert (_))', '(assert ((_ zero_extend) x))',
    '(assert ((_ zero_extend a) x))', '(assert (bvneg))', '(assert (bvnot))',
    '(assert (not))', '(assert (=))', '(assert (= false))', '(assert (ite))',
    '(assert (ite x))', '(assert (concat))', '(assert (concat #b0))',
    '(assert (str.contains))', '(assert (str.contains x))',
    '(assert (seq.nth))', '(assert (seq.nth (seq.unit)))',
    '(assert (bvnand x))', '(assert (=>))', '(assert (xor))',
    '(assert (xor true))', '(assert (fp))', '(assert (fp x))',
    '(assert (select))', '(assert (select a))', '(assert (store))',
    '(assert (!))', '(assert (! x))', '(check-sat-assuming)',
    '(check-sat-assuming x)', '(define-funs-rec)', '(define-funs-rec () ())',
    '(define-funs-rec ((f () Int)) ())', '(assert (- ))', '(assert (/ 1))',
    '(assert (not (<)))', '(assert (not (forall)))',
    '(declare-const x (_ BitVec))', '(declare-const x (_ BitVec a))',
    '(declare-const x (_ FloatingPoint 5))', '(declare-const x (Array))',
    '(declare-const x (Set))', '(assert (= x ((_ to_fp 5) y)))',
    '(assert (= #b1 (bvcomp)))', '(assert (ite (= a) #b1 #b0))',
    '(assert ((_ extract 3 1) ((_ zero_extend 2))))', '(push)', '(pop 1 2)',
    '(assert (let ((x 1) (x 2)) x))', '(assert "lit")', 'atom', '"string"',
    '|quoted sym|', '(assert #b)', '(assert #x)', '(assert (_ bvX 3))',
    '(assert (_ bv3 x))', '(declare-const |a b| (_ BitVec 4))',
    '(assert (= |a b| #xF))', '(declare-const s String)',
    '(assert (= s "a""b"))', '(declare-const b8 (_ BitVec 8))',
    '(assert (= b8 (bvadd b8 #x01)))', '(declare-const i Int)',
    '(assert (> i 5 3))', '(declare-const 7 Int)', '(declare-const x 7)',
]


def fuzz_structure(r, nested, edits):
    """Random structural edits: delete / duplicate / insert children at
    random positions, wrap and unwrap."""
    t = copy.deepcopy(nested)
    for _ in range(edits):
        lists = []

        def rec(x):
            if isinstance(x, list):
                lists.append(x)
                for c in x:
                    rec(c)

        rec(t)
        if not lists:
            break
        l = r.choice(lists)
        op = r.choice(['del', 'del', 'dup', 'ins-atom', 'ins-list', 'wrap',
                       'unwrap', 'empty', 'swap'])
        if op == 'del' and l:
            del l[r.randrange(len(l))]
        elif op == 'dup' and l:
            i = r.randrange(len(l))
            l.insert(i, copy.deepcopy(l[i]))
        elif op == 'ins-atom':
            l.insert(r.randint(0, len(l)),
                     r.choice(['x', '0', '#b1', '_', 'let', 'forall', 'Int',
                               '"s"', 'declare-const', '|q|', ':kw', '1.5']))
        elif op == 'ins-list':
            l.insert(r.randint(0, len(l)), r.choice([[], ['x'], [[]]]))
        elif op == 'wrap' and l:
            i = r.randrange(len(l))
            l[i] = [l[i]]
        elif op == 'unwrap' and l:
            i = r.randrange(len(l))
            if isinstance(l[i], list):
                l[i:i + 1] = l[i]
        elif op == 'empty':
            del l[:]
        elif op == 'swap' and len(l) > 1:
            i, j = r.sample(range(len(l)), 2)
            l[i], l[j] = l[j], l[i]
    return t


_MUT_OPTS = None


def mutator_options():
    global _MUT_OPTS
    if _MUT_OPTS is None:
        from vlib import dd
        ns = dd.load()
        _MUT_OPTS = sorted(opt for (_, _, opt, _) in
                           dd.all_mutator_classes(ns).values())
    return _MUT_OPTS


def make_input(r, kind):
    if kind == 'wellformed':
        s = workload.small_script(r, r.choice(['tiny', 'small']))
        return workload.render_with_noise(r, s.nested())
    if kind == 'fuzzed':
        s = workload.small_script(r, r.choice(['tiny', 'small']))
        return refreader.render(fuzz_structure(r, s.nested(),
                                               r.randint(1, 8)))
    if kind == 'illformed':
        lines = r.sample(ILL_FORMED, r.randint(1, 6))
        if r.random() < 0.5:
            s = workload.small_script(r, 'tiny')
            lines = [refreader.render([c]).strip() for c in s.nested()
                     ] + lines
            r.shuffle(lines)
        return '\n'.join(lines) + '\n'
    if kind == 'unbalanced':
        s = workload.small_script(r, 'tiny')
        text = refreader.render(s.nested())
        c = r.random()
        if c < 0.3:
            i = r.randrange(len(text) + 1)
            return text[:i] + ')' + text[i:]
        if c < 0.6:
            i = r.randrange(len(text) + 1)
            return text[:i] + '(' + text[i:]
        if c < 0.7:
            return ''
        if c < 0.8:
            return '; only a comment\n; another\n'
        if c < 0.9:
            return text[:r.randrange(len(text) + 1)]
        return ')))' + text + '((('
    if kind == 'atoms':
        # no s-expression at all (comments, bare atoms, literals), and not
        # everything can go
        parts = r.sample(['keep-me', '"lit"', '42', '; c', '|q s|', ':kw',
                          '#b01', '; another comment', 'keep-me'],
                         r.randint(2, 6))
        if 'keep-me' not in parts:
            parts.insert(r.randint(0, len(parts)), 'keep-me')
        return '\n'.join(parts) + r.choice(['', '\n'])
    if kind == 'deep':
        # nesting far beyond the interpreter's recursion limit, at a random
        # token position (a name, a sort, a binder, a term, a whole command)
        s = workload.small_script(r, 'tiny')
        toks = refreader.lex(refreader.render(s.nested()))
        idx = [i for i, t in enumerate(toks) if t not in '()']
        n = r.choice([1100, 1600, 2600])
        if idx and r.random() < 0.85:
            i = r.choice(idx)
            toks = toks[:i] + ['('] * n + [toks[i]] + [')'] * n + toks[i + 1:]
        else:
            toks = ['('] * n + toks + [')'] * n
        return ' '.join(toks) + '\n'
    raise ValueError(kind)


TB_FRAME = re.compile(r'File "([^"]*)", line \d+, in (\S+)')


def traceback_key(stderr):
    """``ExcType@module.function`` of the innermost repository frame of the
    first uncaught traceback."""
    i = stderr.find('Traceback (most recent call last)')
    block = stderr[i:]
    lines = block.splitlines()
    frame = None
    exc = 'UnknownError'
    for k, line in enumerate(lines[1:], 1):
        m = TB_FRAME.search(line)
        if m:
            if '/ddsmt/' in m.group(1) or m.group(1).endswith('bin/ddsmt'):
                f = (os.path.basename(m.group(1))[:-3], m.group(2))
                # accessors of Node are never the place of the mistake
                if not (f[0] == 'nodes' and f[1] in ('__getitem__',
                                                     'get_ident')):
                    frame = f
            continue
        if line and not line.startswith(' '):
            exc = line.split(':')[0].strip()
            break
    if frame is None:
        return f'{exc}@?'
    return f'{exc}@{frame[0]}.{frame[1]}'


def judge(res, run, desc, entry):
    res.count('evaluations')
    witness = dict(desc)
    witness['opts'] = run.opts
    witness['entry'] = entry
    witness['rc'] = run.rc
    witness['stderr_tail'] = run.stderr[-1500:]
    witness['stdout_tail'] = run.stdout[-300:]
    if run.timed_out:
        res.count('runs_watchdog')
        return
    if run.uncaught_traceback:
        res.violation(traceback_key(run.stderr),
                      f'uncaught exception (exit status {run.rc}): '
                      f'{run.stderr.strip().splitlines()[-1][:200]}',
                      witness)
        return
    if run.rc is not None and run.rc < 0 and not run.sent_signal:
        # nobody sent a signal: ddSMT (not the command) was killed by the
        # kernel, e.g. by a resource limit it put on itself
        res.violation(f'killed-by-signal:{-run.rc}:{entry}',
                      f'ddSMT was terminated by signal {-run.rc} in the '
                      f'middle of the run, without any diagnostic', witness)
        return
    completed = ('unable to minimize input file' in run.stderr
                 or 'No further simplification found' in run.stderr
                 or run.out_bytes is not None)
    finished_msg = ('unable to minimize input file' in run.stderr
                    or (run.out_bytes is not None and
                        '[ddsmt] interrupted' not in run.stdout))
    if finished_msg and run.rc != 0:
        res.violation(f'exit-status:nonzero-after-completion:{entry}',
                      f'minimisation completed but the exit status is '
                      f'{run.rc}', witness)
    if not finished_msg and run.rc == 0:
        res.violation(f'exit-status:zero-without-completion:{entry}',
                      'exit status 0 although minimisation did not complete',
                      witness)
    # per-mutator failures that ddSMT caught and reported
    for m in re.finditer(r"<class '(\w+)'> in (application of|check of|ddmin "
                         r"worker)([^\n]*)", run.stderr):
        res.count('caught_mutator_exceptions')
        res.add_set('caught_exceptions',
                    f'{m.group(1)} in {m.group(2)}{m.group(3)[:40]}')
    for e in run.cmdlog[:400]:
        pass
    return completed


def long_case(res, base, strat):
    """A run with thousands of tests in which nothing can be removed: the
    process that runs the command accumulates far more CPU time than the
    limit of a single test (--timeout 1).  Whatever limits ddSMT installs
    are for the command, the run itself has to go on to its end."""
    n = 14
    lines = [f'(declare-const b{i} Bool)' for i in range(n)] + [
        f'(assert (or b{i} (not b{(i + 1) % n})))' for i in range(n)] + [
        '(check-sat)']
    text = '\n'.join(lines) + '\n'
    ntok = len(workload.tokens_of(text))
    # only the input itself behaves like the golden run
    rules = realrun.simple_spec(f'ntok>={ntok} count:b0>=3 & count:or>={n} &')
    opts = ['--strategy', strat, '-j', '1', '--timeout', '1']
    wd = os.path.join(base, f'long-{strat}')
    run = realrun.run_ddsmt(wd, text, rules, opts=opts, timeout=400)
    res.count('long_runs')
    res.count('long_run_tests', len(run.cmdlog))
    judge(res, run, {'input': text, 'rules': rules, 'kind': 'long',
                     'strategy': strat, 'jobs': 1}, 'bin')
    shutil.rmtree(wd, ignore_errors=True)


def usage_cases(r, base):
    """(name, kwargs for run_ddsmt, expectation) for usage errors."""
    text = '(declare-const x Int)\n(assert (> x 0))\n(check-sat)\n'
    rules = realrun.simple_spec('has:x')
    cases = []
    cases.append(('missing-input', dict(input_text=text, spec=rules,
                                        infile_name='in.smt2',
                                        opts=[], _remove_input=True)))
    cases.append(('input-is-directory', dict(input_text=text, spec=rules,
                                             _input_dir=True)))
    cases.append(('missing-command', dict(input_text=text, spec=rules,
                                          cmd_override=[])))
    cases.append(('command-not-a-file',
                  dict(input_text=text, spec=rules,
                       cmd_override=['/nonexistent/solver'])))
    cases.append(('command-is-directory',
                  dict(input_text=text, spec=rules, cmd_override=['/tmp'])))
    cases.append(('command-not-executable',
                  dict(input_text=text, spec=rules, _nonexec=True)))
    cases.append(('cc-command-not-a-file',
                  dict(input_text=text, spec=rules,
                       opts=['-c', '/nonexistent/solver'])))
    cases.append(('cc-command-is-directory',
                  dict(input_text=text, spec=rules, opts=['-c', '/tmp'])))
    cases.append(('cc-command-not-executable',
                  dict(input_text=text, spec=rules, _cc_nonexec=True)))
    cases.append(('match-out-absent',
                  dict(input_text=text, spec=rules,
                       opts=['--match-out', 'NOT-IN-OUTPUT'])))
    cases.append(('match-err-absent',
                  dict(input_text=text, spec=rules,
                       opts=['--match-err', 'NOT-IN-OUTPUT'])))
    # a benchmark whose comment is written in Latin-1: not decodable as
    # UTF-8 (ddSMT may minimise it or refuse it, but not fail internally)
    cases.append(('input-not-utf8',
                  dict(input_text=text, spec=rules, _may_complete=True,
                       input_bytes=b'; caf\xe9 au lait\n' + text.encode())))
    cases.append(('output-directory-missing',
                  dict(input_text=text, spec=rules,
                       outfile_name='no-such-dir/out.smt2')))
    cases.append(('output-is-directory',
                  dict(input_text=text, spec=rules, outfile_name='tmp')))
    # the output path is the input file itself (it would be overwritten by
    # the first accepted step)
    cases.append(('output-is-input',
                  dict(input_text=text, spec=rules, infile_name='in.smt2',
                       outfile_name='in.smt2')))
    # ... or reaches it through another spelling (a symbolic link to the
    # directory)
    cases.append(('output-is-input-via-link',
                  dict(input_text=text, spec=rules, infile_name='in.smt2',
                       outfile_name='alias/in.smt2', _alias=True)))
    cases.append(('jobs-zero',
                  dict(input_text=text, spec=rules, opts=['-j', '0'])))
    return cases


def run_usage(res, base, name, kw, entry):
    wd = os.path.join(base, f'usage-{name}-{entry}')
    kw = dict(kw)
    os.makedirs(wd, exist_ok=True)
    rm = kw.pop('_remove_input', False)
    isdir = kw.pop('_input_dir', False)
    nonexec = kw.pop('_nonexec', False)
    may_complete = kw.pop('_may_complete', False)
    if kw.pop('_alias', False):
        os.symlink(wd, os.path.join(wd, 'alias'))
    if kw.pop('_cc_nonexec', False):
        ne = os.path.join(wd, 'cc_notexec')
        with open(ne, 'w') as f:
            f.write('#!/bin/sh\nexit 1\n')
        os.chmod(ne, 0o644)
        kw['opts'] = ['-c', ne]
    if rm:
        kw['infile_name'] = 'sub/in.smt2'  # never created: parent missing
    if nonexec:
        ne = os.path.join(wd, 'notexec')
        with open(ne, 'w') as f:
            f.write('#!/bin/sh\nexit 1\n')
        os.chmod(ne, 0o644)
        kw['cmd_override'] = [ne]
    try:
        if rm or isdir:
            # run_ddsmt writes the input; emulate by pointing at a path
            # that is not a regular file
            text = kw.pop('input_text')
            spec = kw.pop('spec')
            run = realrun.run_ddsmt(
                wd, text, spec, entry=entry, timeout=60,
                infile_name='in.smt2', opts=kw.get('opts', []),
                cmd_override=None,
                env_extra=None)
            # second run with the bad path given explicitly
            bad = os.path.join(wd, 'tmp') if isdir else os.path.join(
                wd, 'does-not-exist.smt2')
            argv = [a if a != run.infile else bad for a in run.argv]
            import subprocess
            env = common.child_env()
            env['TMPDIR'] = os.path.join(wd, 'tmp')
            p = subprocess.run(argv, capture_output=True, env=env, cwd=wd,
                               timeout=60)
            run.rc = p.returncode
            run.stdout = p.stdout.decode()
            run.stderr = p.stderr.decode()
            run.uncaught_traceback = realrun.has_uncaught_traceback(
                run.stderr)
            run.out_bytes = None
        else:
            text = kw.pop('input_text')
            spec = kw.pop('spec')
            run = realrun.run_ddsmt(wd, text, spec, entry=entry, timeout=60,
                                    **kw)
    finally:
        pass
    res.count('evaluations')
    res.count('usage_error_cases')
    res.add_set('usage_cases', f'{name}/{entry}')
    witness = {'case': name, 'entry': entry, 'rc': run.rc,
               'stdout': run.stdout[-500:], 'stderr': run.stderr[-800:]}
    if may_complete and run.rc == 0 and not run.uncaught_traceback \
            and run.out_bytes is not None:
        # not an error for this implementation: it minimised the input
        res.count('usage_cases_handled_as_input')
        shutil.rmtree(wd, ignore_errors=True)
        return
    if run.uncaught_traceback:
        res.violation(f'usage:{traceback_key(run.stderr)}',
                      f'usage error {name}: uncaught exception', witness)
    else:
        diag = [l for l in (run.stdout + run.stderr).splitlines()
                if 'Error' in l or 'ERROR' in l or 'error' in l]
        if len(diag) != 1:
            res.violation(f'usage:diagnostic-lines:{name}',
                          f'usage error {name}: expected a one-line '
                          f'diagnostic, got {len(diag)}: {diag[:3]}', witness)
    if run.rc == 0:
        res.violation(f'exit-status:zero-without-completion:{entry}',
                      f'usage error {name}: exit status 0', witness)
    if getattr(run, 'infile_unchanged', True) is False:
        res.violation(f'usage:input-file-modified:{name}',
                      f'usage error {name}: the input file was modified',
                      witness)
    shutil.rmtree(wd, ignore_errors=True)


def isolation_case(res, base, r, idx):
    """A failure inside one mutator costs only that mutator's candidates:
    with an exception injected into every call of one mutator, a -j1 run
    must complete and produce exactly what a run with that mutator disabled
    produces."""
    from vlib import dd
    ns = dd.load()
    classes = dd.all_mutator_classes(ns)
    s = workload.small_script(r, r.choice(['tiny', 'small']))
    text = workload.render_with_noise(r, s.nested(), comments=False)
    rules, pred = workload.pick_spec(r, text, families=['has', 'count',
                                                        'ntok', 'subseq'])
    cname = r.choice(['EraseNode', 'Constants', 'ReplaceByChild',
                      'ReplaceByVariable', 'LetSubstitution', 'SortChildren',
                      'MergeWithChildren', 'EliminateVariable',
                      'BoolDeMorgan', 'ArithmeticSimplifyConstant',
                      'SimplifySymbolNames', 'BVNormalizeConstants',
                      'StringSimplifyConstant', 'CheckSatAssuming'])
    opt = classes[cname][2]
    where = r.choice(['mutations', 'filter', 'all'])
    strat = r.choice(workload.STRATEGIES)
    common_opts = ['--strategy', strat, '-j', '1', '--timeout', '20',
                   '--no-introduce-fresh-variables', '--arithmetic', '--bv',
                   '--strings', '--datatypes', '--fp']
    ra = realrun.run_ddsmt(os.path.join(base, f'iso{idx}a'), text, rules,
                           opts=common_opts,
                           launcher={'monitors': [], 'break_mutator': cname,
                                     'break_where': where})
    rb = realrun.run_ddsmt(os.path.join(base, f'iso{idx}b'), text, rules,
                           opts=common_opts + [f'--no-{opt}'],
                           launcher={'monitors': []})
    shutil.rmtree(os.path.join(base, f'iso{idx}a'), ignore_errors=True)
    shutil.rmtree(os.path.join(base, f'iso{idx}b'), ignore_errors=True)
    res.count('evaluations')
    res.count('isolation_cases')
    ninj = sum(1 for e in ra.events if e['ev'] == 'injected_exception')
    res.count('injected_mutator_exceptions', ninj)
    witness = {'input': text, 'rules': rules, 'opts': common_opts,
               'broken_mutator': cname, 'where': where,
               'stderr_tail': ra.stderr[-1200:]}
    if ra.timed_out or rb.timed_out:
        res.count('runs_watchdog')
        return
    if ra.uncaught_traceback or ra.rc != 0:
        res.violation(
            f'mutator-failure-aborts-run:{strat}:{where}',
            f'an exception injected into {cname}.{where} ended the run '
            f'(exit status {ra.rc})', witness)
        return
    if ninj == 0:
        res.count('isolation_cases_without_injection')
        return

    def td(run):
        return None if run.out_bytes is None else refreader.token_digest(
            run.out_bytes.decode('utf-8', 'replace'))

    if td(ra) != td(rb):
        witness['output_with_failing_mutator'] = (ra.out_bytes or b'').decode(
            'utf-8', 'replace')[:1500]
        witness['output_with_mutator_disabled'] = (
            rb.out_bytes or b'').decode('utf-8', 'replace')[:1500]
        res.violation(
            f'mutator-failure-costs-other-candidates:{strat}',
            f'with {cname}.{where} failing, the result differs from the '
            f'result with {cname} disabled: candidates of other mutators '
            f'were lost or gained', witness)


def shard(args):
    res = common.ShardResult()
    r = common.rng('c04', args['shard'])
    base = common.scratch_dir('c04')
    try:
        if args['shard'] == 0:
            for name, kw in usage_cases(r, base):
                for entry in ('bin', 'module'):
                    run_usage(res, base, name, kw, entry)
        if args['shard'] in (2, 3):
            long_case(res, base, ['ddmin', 'hybrid'][args['shard'] - 2])
        for i in range(args['n']):
            kind = ['wellformed', 'fuzzed', 'illformed', 'unbalanced',
                    'fuzzed', 'illformed', 'deep', 'atoms'][i % 8]
            text = make_input(r, kind)
            fam = r.choice([['all'], ['all'], ['has'], ['ntok'], ['count'],
                            ['hash']])
            if 'keep-me' in text:
                rules = realrun.simple_spec('has:keep-me')
            if kind == 'deep':
                # (peeling thousands of levels one by one would only take
                # time: commands that let whole commands go)
                fam = r.choice([['all'], ['hash']])
            rules, pred = workload.pick_spec(r, text, families=fam)
            binout = None
            if r.random() < 0.2:
                # "every command": one whose output is not text - bytes that
                # are not valid UTF-8 on stdout or stderr, in the golden run
                # or only on some candidates
                binout = r.choice(['golden', 'candidates', 'candidates'])
                junk = r.choice(['%FF%FE%80', 'caf%E9%0A', '%C3%28', '%80'])
                stream = r.choice(['out', 'err'])
                toks = [t for t in workload.tokens_of(text)
                        if t not in '()'] or ['x']
                t = realrun.pct(r.choice(toks))
                if binout == 'golden':
                    rules = [f'has:{t} => exit=3 {stream}={junk}',
                             'all => exit=0 out=ok%0A']
                else:
                    t2 = realrun.pct(r.choice(toks))
                    rules = [f'has:{t2} ! has:{t} & => exit=3 {stream}={junk}',
                             f'count:false>=1 => exit=3 {stream}={junk}',
                             f'has:{t} => exit=3 out=bug%0A',
                             'all => exit=0 out=ok%0A']
                res.count(f'runs_with_non_utf8_output_{binout}')
            strat = r.choice(workload.STRATEGIES)
            j = r.choice([1, 1, 2, 4])
            opts = ['--strategy', strat, '-j', str(j), '--timeout', '20']
            if binout and r.random() < 0.6:
                opts += [r.choice(['-v', '-vv'])]
            if r.random() < 0.6:
                opts += r.sample(['--bv', '--fp', '--strings', '--datatypes',
                                  '--arithmetic'], r.randint(1, 5))
            if r.random() < 0.15:
                opts += ['-v']
            # output formats (the output file is written by three different
            # writers) and, in a fifth of the runs, a random handful of
            # mutators only (so that late mutators meet inputs that the usual
            # first ones would have changed before)
            opts += workload.format_options(r)
            if r.random() < 0.2:
                opts += ['--disable-all'] + [
                    f'--{o}' for o in r.sample(mutator_options(),
                                               r.randint(1, 6))]
            # diagnostic options: they only add output, the run must go on
            # as without them
            c = r.random()
            if c < 0.08:
                opts += ['--profile']
            elif c < 0.16:
                opts += ['--dump-diffs']
            elif c < 0.2:
                opts += ['-q']
            elif c < 0.24:
                opts += ['--check-loops']
            entry = 'bin' if i % 2 == 0 else 'module'
            sig = None
            if i % 11 == 10:
                # SIGINT after the k-th test of the command (so that ddSMT
                # is past its start-up and inside the minimisation)
                sig = r.choice([1, 2, 3, 5, 8, 13, 21])
            desc = {'input': text, 'rules': rules, 'kind': kind,
                    'strategy': strat, 'jobs': j, 'sigint_after': sig,
                    'non_utf8_output': binout}
            wd = os.path.join(base, f'run{i}')
            launcher = None
            if sig is None and binout is None and r.random() < 0.15:
                # the check of some candidates fails for an environmental
                # reason (injected OSError while the candidate is checked)
                launcher = {'monitors': [], 'break_check': {
                    'seed': r.randint(0, 10**6),
                    'per_mille': r.choice([30, 100, 300])}}
                if r.random() < 0.6:
                    opts += [r.choice(['-v', '-vv'])]
                desc['injected_check_faults'] = launcher['break_check']
                res.count('runs_with_injected_check_faults')
            run = realrun.run_ddsmt(wd, text, rules, opts=opts, entry=entry,
                                    signal_after_tests=sig,
                                    launcher=launcher)
            if launcher:
                res.count('injected_check_faults', sum(
                    1 for e in run.events
                    if e['ev'] == 'injected_check_fault'))
            if sig is not None and run.sent_signal:
                res.count('interrupted_runs')
                judge_interrupted(res, run, desc, entry)
            else:
                judge(res, run, desc, entry)
            res.count('runs')
            res.count(f'runs_{kind}')
            res.add_set('configs', f'{kind}/{strat}/{entry}')
            if kind != 'wellformed':
                res.add_distinct(common.digest(text))
            # shapes reached: (head, arity) pairs the command saw
            if i < 1:
                res.sample({'input': text[:600], 'rules': rules,
                            'opts': opts, 'rc': run.rc,
                            'tests': len(run.cmdlog)})
            shutil.rmtree(wd, ignore_errors=True)
        for i in range(args.get('iso', 0)):
            isolation_case(res, base, r, i)
    finally:
        shutil.rmtree(base, ignore_errors=True)
    return res.to_dict()


def judge_interrupted(res, run, desc, entry):
    res.count('evaluations')
    witness = dict(desc)
    witness.update({'opts': run.opts, 'entry': entry, 'rc': run.rc,
                    'stderr_tail': run.stderr[-1500:],
                    'stdout_tail': run.stdout[-300:]})
    if 'Exception ignored in' in run.stderr:
        res.count('exceptions_ignored_during_interpreter_shutdown')
    if run.timed_out:
        res.count('runs_watchdog')
        return
    if run.uncaught_traceback:
        res.violation('interrupt:' + traceback_key(run.stderr),
                      'uncaught exception after SIGINT', witness)
        return
    if '[ddsmt] interrupted' in run.stdout and run.rc == 0:
        res.violation(f'exit-status:zero-without-completion:{entry}',
                      'interrupted run exits with status 0', witness)


def run(ctx):
    n = int(os.environ.get('C04_N', 0)) or (18 if ctx.tier == 'quick' else 1000)
    shards = [{'shard': i, 'n': n, 'iso': 2 if ctx.tier == 'quick' else 25}
              for i in range(common.NCPU)]
    results = common.run_shards('checks.c04', shards, timeout=3400)
    common.merge_shards(ctx, results)
    ctx.rule = (
        'real bin/ddsmt and python -m ddsmt runs on: well-formed gen_smt '
        'scripts, structure-fuzzed scripts (delete/duplicate/insert/wrap/'
        'unwrap children), a catalogue of ~120 ill-formed commands, '
        'unbalanced / empty / comment-only texts; permissive predicates '
        '(all/has/ntok/count/hash) so that ddSMT itself walks through '
        'ill-formed intermediates; all strategies, -j{1,2,4}, theory groups '
        'forced on; SIGINT at a random instant (every 11th run); plus 11 '
        'usage-error cases x 2 entry points; isolation cases: an exception '
        'injected into every call of one mutator (filter / mutations / both) '
        'must give the same result as disabling that mutator; distinct '
        'non-trivial = '
        'distinct not-well-formed input texts')
    ctx.assumptions = [
        'only the header "Traceback (most recent call last)" marks an '
        'uncaught exception (caught ones are printed with print_tb)',
        'SIGINT is sent to the main pid only'
    ]
    ctx.judge_watchdog('runs')
    if ctx.counters.get('usage_error_cases', 0) < 34:
        ctx.inconclusive_because('usage-error cases incomplete')


def replay(data):
    res = common.ShardResult()
    base = common.scratch_dir('c04r')
    try:
        for k, c in enumerate(data['cases']):
            w = c['witness']
            if 'input' not in w:
                continue
            run = realrun.run_ddsmt(os.path.join(base, f'r{k}'), w['input'],
                                    w['rules'], opts=w['opts'],
                                    entry=w['entry'])
            judge(res, run, w, w['entry'])
    finally:
        shutil.rmtree(base, ignore_errors=True)
    for v in res.violations:
        print(v['key'], v['what'][:300])
    return 1 if res.violations else 0
