"""C03 - minimisation always terminates: no mutation cycles, no no-ops, no
hanging mutators.

Unbounded liveness is restated as refutable bounded statements, each
monitored on the real code:
 R1 no proposal leaves the input unchanged and no chain of proposals returns
    to an earlier input (exhaustive to depth 2 on tiny seeds, random walks on
    larger ones; candidates are confirmed by a real run against a command
    that accepts exactly the members of the chain);
 R2/R3 every call of filter/mutations/global_mutations/apply_simp stays
    within a polynomial budget of logical steps and of allocated nodes;
 W3 whole real runs with permissive predicates perform a bounded number of
    accepted steps.
"""
import os
import shutil

from vlib import budget, common, gen_smt, realrun, refmodel, refreader, \
    shapes, workload

LEVEL = 'exploration'

CATALOGUE = [
    '(declare-const a (_ BitVec 4))\n(assert (= a #b0101))\n(assert (= a (_ bv5 4)))\n(assert (= #x5 a))\n',
    '(declare-const a Int)\n(declare-const b Int)\n(assert (not (= a b)))\n(assert (distinct a b))\n(assert (not (< a b)))\n',
    '(declare-const p Bool)\n(declare-const q Bool)\n(assert (= false p))\n(assert (not (not q)))\n(assert (xor p q))\n(assert (=> p q))\n',
    '(declare-const x Int)\n(define-fun y () Int x)\n(define-fun z () Int y)\n(assert (> y z))\n(assert (= x y))\n',
    '(declare-const x Int)\n(declare-const |x| Int)\n(declare-const |y z| Int)\n(assert (= |x| |y z|))\n',
    '(declare-const falsex Bool)\n(declare-const fals Bool)\n(assert (or falsex fals))\n',
    '(declare-const c Int)\n(declare-const b Int)\n(declare-const a Int)\n(assert (> (+ a b) (+ b a) c))\n(assert (= a b))\n(assert (= b a))\n',
    '(declare-const v (_ BitVec 8))\n(assert (= ((_ zero_extend 2) v) ((_ zero_extend 2) v)))\n(assert (= #b1 (bvcomp v v)))\n',
    '(declare-const s String)\n(assert (str.contains s "ab"))\n(assert (= s "a""b"))\n',
    '(declare-const w (_ BitVec 4))\n(assert (= w (concat #b00 ((_ extract 1 0) w))))\n',
    '(declare-const a Int)\n(assert (let ((x a) (y 1)) (> (+ x y) 0)))\n(assert (let ((x (+ a 1))) (let ((y x)) (= y x))))\n',
    '(declare-datatype T ((A) (B (s Int))))\n(declare-const t T)\n(assert (= (s (B 1)) 1))\n(assert (= t A))\n',
    '(declare-const a Real)\n(assert (> a 1.5))\n(assert (= a (/ 3 4)))\n(assert (< 10.25 a))\n',
    '(set-logic QF_NIRA)\n(declare-const i Int)\n(assert (> (* i i) 2))\n',
    '(declare-const x Int)\n(assert (= x x x))\n(assert (= x 0))\n(assert (= 0 x))\n',
    # a variable defined by an equality with a compound term: elimination
    # duplicates the term, replacement by a variable of the same sort can
    # bring the variable back
    '(declare-const w Int)\n(declare-const a Int)\n(assert (= w (+ a 1)))\n',
    '(declare-const p Bool)\n(declare-const q Bool)\n(declare-const r Bool)\n(assert (= p (and q r)))\n',
    '(declare-const v (_ BitVec 8))\n(declare-const u (_ BitVec 8))\n(assert (= (bvadd u #x01) v))\n(assert (bvult v u))\n',
    # a definition that mentions itself (not legal SMT-LIB, but ddSMT makes
    # such inputs itself: a declaration erased, a defined symbol renamed to
    # the name it is defined by): inlining must not propose the same input
    '(define-fun g () Int g)\n(assert (> g 0))\n',
    '(define-fun f ((y Int)) Int (f y))\n(declare-const k Int)\n(assert (> (f k) 0))\n',
    '(declare-const g Int)\n(define-fun fg () Int g)\n(assert (p fg))\n',
    '(define-fun h ((y Int)) Int (+ (h y) 1))\n(declare-const k Int)\n(assert (> (h k) (h 0)))\n',
    # invented names of two generations are taken (a third containment on
    # one variable, or ddSMT run on its own output): the search for unused
    # names must still end
    '(declare-const x String)\n(declare-const x_prefix String)\n(declare-const x_suffix String)\n(declare-const x_prefix_ String)\n(declare-const x_suffix_ String)\n(assert (str.contains x "a"))\n(assert (= x (str.++ x_prefix "b" x_suffix)))\n(assert (= x (str.++ x_prefix_ "c" x_suffix_)))\n',
    '(declare-const v (_ BitVec 8))\n(declare-const _v (_ BitVec 7))\n(declare-const __v (_ BitVec 6))\n(declare-const ___v (_ BitVec 5))\n(assert (= v (bvadd v #x01)))\n',
    # floating-point literals: their components are bit-vector constants
    # that other mutators (and Constants itself) rewrite on their own
    '(declare-const v7 Float16)\n(assert (distinct (fp (_ bv1 1) (_ bv1 5) (_ bv0 10)) v7))\n',
    '(declare-const v4 (_ FloatingPoint 5 11))\n(assert (distinct (fp (_ bv1 1) #b00000 (_ bv1 10)) v4))\n',
    '(declare-const v (_ FloatingPoint 3 5))\n(assert (fp.lt v (fp #b0 #b111 #x0)))\n',
    # the default floating-point constants themselves (not leaves): whatever
    # replaces one must not be replaced by it again
    '(assert (fp.isNaN (fp (_ bv0 1) (_ bv0 8) (_ bv0 23))))\n',
    '(declare-const v Float16)\n(assert (fp.lt v (fp (_ bv0 1) (_ bv0 5) (_ bv0 10))))\n(assert (fp.isNaN (fp #b0 #b10001 #b0100000000)))\n',
    '(declare-const r Real)\n(assert (> r (/ 1 3)))\n(assert (< (/ 0.0 1.0) r))\n',
    # one symbol declared twice, used in quoted form
    '(declare-const x Int)\n(declare-const x Int)\n(assert (= |x| |x|))\n',
    '(declare-const x Int)\n(declare-const |y z| Int)\n(assert (= |x| |y z|))\n',
    '(declare-const |x| Int)\n(declare-const y Int)\n(assert (= x y))\n(assert (> |x| y))\n',
    # what other steps leave of datatype declarations: a compound term
    # where the name of a constructor belongs
    '(declare-datatype D (() (s (s (s (())))) ((s (s (s (())))))))\n(declare-const x D)\n(assert (= x (s (s (())))))\n',
    '(declare-datatypes ((D 0)) (((A) ((B A)) (C (c (B A))))))\n(declare-const x D)\n(assert (distinct x (C (B A)) (B A)))\n',
    # definitions that mention each other
    '(define-fun f () Int g)\n(define-fun g () Int f)\n(assert (> f 0))\n',
    '(define-fun f ((a Int)) Int (g a))\n(define-fun g ((b Int)) Int (+ (f b) 1))\n(declare-const k Int)\n(assert (> (f k) 0))\n',
    '(define-fun w () (_ BitVec 8) ((_ zero_extend 3) _w))\n(define-fun _w () (_ BitVec 5) ((_ zero_extend 3) w))\n(assert (= w #x03))\n',
    # an equality between two copies of a term: a fresh variable for one of
    # them can be eliminated again
    '(declare-const a Int)\n(assert (= (+ a 1) (+ a 1)))\n',
    '(declare-const v (_ BitVec 4))\n(declare-const u (_ BitVec 4))\n(assert (= (bvand u v) (bvand u v)))\n',
    # two variables, an equality and a second use: variable-for-variable
    # rewrites in both directions (also with --replace-by-variable-mode dec)
    '(declare-const a Int)\n(declare-const b Int)\n(assert (= a b))\n(assert (> a 0))\n',
    '(declare-const p Bool)\n(declare-const q Bool)\n(assert (= q p))\n(assert (or q p))\n',
    # legal shadowing: the binding term mentions a symbol the same let binds
    '(declare-const x Int)\n(declare-const y Int)\n(assert (let ((x y) (y x)) (< x y)))\n',
    '(declare-const x Int)\n(assert (let ((x (+ x 1))) (< x 0)))\n',
    '(declare-const p Bool)\n(assert (let ((p (not p))) (or p (let ((q p) (p q)) q))))\n',
    # arguments mentioning formal parameter names
    '(declare-const k Int)\n(define-fun f ((a Int) (b Int)) Int (- (* a 2) b))\n(define-fun g ((a Int) (b Int)) Int (f b a))\n(assert (> (g k 3) (f (+ k 1) k)))\n',
    '(declare-const a Int)\n(define-fun f ((a Int)) Int (+ a 1))\n(assert (> (f (f a)) (f (* a 2))))\n',
]


class Explorer:

    def __init__(self, ns, res):
        from vlib import dd
        self.ns = ns
        self.res = res
        self.muts_inc = [(c, cls()) for c, (mod, cls, opt, grp) in
                         dd.all_mutator_classes(ns).items()]
        # --replace-by-variable-mode dec: a run uses one mode throughout
        self.muts_dec = [(c, m) for c, m in self.muts_inc
                         if c != 'ReplaceByVariable']
        m = ns.mutators_core.ReplaceByVariable()
        m.repl_mode = 'dec'
        self.muts_dec.append(('ReplaceByVariable(dec)', m))
        for c, m in self.muts_inc:
            if c == 'ReplaceByVariable':
                m.repl_mode = 'inc'
        self.set_mode('inc')
        self.codes = []
        for modname in ('nodes', 'smtlib', 'mutator_utils', 'mutators_core',
                        'mutators_smtlib', 'mutators_bv', 'mutators_boolean',
                        'mutators_arithmetic', 'mutators_strings',
                        'mutators_datatypes', 'mutators_fp'):
            self.codes += budget.code_objects(getattr(ns, modname))
        self.pb = budget.PersistentBudget(self.codes)
        self.node_count = [0]
        orig_init = ns.Node.__init__
        counter = self.node_count

        def counting_init(self_, *a, **kw):
            counter[0] += 1
            return orig_init(self_, *a, **kw)

        ns.Node.__init__ = counting_init

    def set_mode(self, mode):
        self.mode = mode
        self.ns.options.args().replace_by_variable_mode = mode
        self.muts = self.muts_inc if mode == 'inc' else self.muts_dec

    def key(self, exprs):
        toks = refreader.canon_fresh([
            t for t in refreader.flatten(refmodel.to_nested_list(exprs))
        ])
        return '\x00'.join(toks)

    def step_budget(self, n, nprops):
        # sort inference is quadratic in the depth of a chain-shaped term
        # (about 3.3 n^2 calls, i.e. ~7 n^2 lines, for nested ite): the
        # budget must leave that alone and still stop exponential cost
        return (1 + nprops) * (10_000 + 400 * n + 50 * n * n)

    def node_budget(self, n, nprops):
        return (1 + nprops) * (100 + 20 * n)

    def guarded(self, what, mname, n, fn, state_text):
        """Run fn() under the step budget; returns (result, ok)."""
        self.node_count[0] = 0
        limit = self.step_budget(n, 60)
        b = self.pb
        try:
            b.begin(limit)
            try:
                out = fn()
            finally:
                b.end()
        except budget.BudgetExceeded:
            self.res.violation(
                f'step-budget:{mname}:{what}',
                f'{what} of {mname} exceeded {limit} logical steps on an '
                f'input of {n} nodes', {'input': state_text,
                                        'mutator': mname})
            return None, False
        except Exception as e:  # noqa
            self.res.count('exceptions_in_mutators')
            self.res.add_set('exceptions',
                             f'{mname}:{what}:{type(e).__name__}')
            return None, False
        self.res.count('budgeted_calls')
        nprops = len(out) if isinstance(out, list) else 0
        self.res.cmax('max_steps_per_call', b.steps)
        self.res.cmax('max_step_ratio_x1000',
                      int(1000 * b.steps / self.step_budget(n, nprops)))
        nb = self.node_budget(n, nprops)
        self.res.cmax('max_node_ratio_x1000',
                      int(1000 * self.node_count[0] / nb))
        if b.steps > self.step_budget(n, nprops):
            self.res.violation(
                f'step-budget:{mname}:{what}',
                f'{what} of {mname} took {b.steps} logical steps for '
                f'{nprops} proposals on {n} nodes', {'input': state_text,
                                                     'mutator': mname})
        if self.node_count[0] > nb:
            self.res.violation(
                f'node-budget:{mname}:{what}',
                f'{what} of {mname} allocated {self.node_count[0]} nodes '
                f'for {nprops} proposals on {n} nodes',
                {'input': state_text, 'mutator': mname})
        return out, True

    def successors(self, exprs, cap_per_node=6, rnd=None, sample_nodes=None):
        """[(mutator name, node index, successor exprs)] of state exprs."""
        ns = self.ns
        text = refreader.render(refmodel.to_nested_list(exprs))
        try:
            ns.smtlib.collect_information(exprs)
        except Exception as e:  # noqa
            self.res.add_set('exceptions',
                             f'collect_information:{type(e).__name__}')
            return []
        n = ns.nodes.count_nodes(exprs)
        nodes = list(ns.nodes.bfs(exprs))
        idxs = list(range(len(nodes)))
        if sample_nodes and len(idxs) > sample_nodes:
            idxs = sorted(rnd.sample(idxs, sample_nodes))
        out = []
        for i in idxs:
            node = nodes[i]
            for mname, m in self.muts:
                self.res.count('mutator_calls')
                if hasattr(m, 'filter'):
                    ok, fine = self.guarded('filter', mname, n,
                                            lambda: m.filter(node), text)
                    if not fine or not ok:
                        continue
                props = []
                if hasattr(m, 'mutations'):
                    p, fine = self.guarded(
                        'mutations', mname, n,
                        lambda: take(m.mutations(node), cap_per_node), text)
                    props += p or []
                if hasattr(m, 'global_mutations'):
                    p, fine = self.guarded(
                        'global_mutations', mname, n,
                        lambda: take(m.global_mutations(node, exprs),
                                     cap_per_node), text)
                    props += p or []
                for simp in props:
                    t, fine = self.guarded(
                        'apply_simp', mname, n,
                        lambda: ns.nodes.reduplicate(
                            ns.mutator_utils.apply_simp(exprs, simp)), text)
                    self.res.count('evaluations')
                    if fine and t is not None:
                        out.append((mname, i, t))
        return out


def single_successors(ex, exprs, i, mname):
    """Successors of ``exprs`` through proposals of one mutator at one BFS
    node index."""
    ns = ex.ns
    try:
        ns.smtlib.collect_information(exprs)
    except Exception:  # noqa
        return []
    nodes = list(ns.nodes.bfs(exprs))
    if i >= len(nodes):
        return []
    node = nodes[i]
    m = dict(ex.muts)[mname]
    n = len(nodes)
    text = ''
    if hasattr(m, 'filter'):
        ok, fine = ex.guarded('filter', mname, n, lambda: m.filter(node),
                              text)
        if not fine or not ok:
            return []
    props = []
    if hasattr(m, 'mutations'):
        p, fine = ex.guarded('mutations', mname, n,
                             lambda: take(m.mutations(node), 6), text)
        props += p or []
    if hasattr(m, 'global_mutations'):
        p, fine = ex.guarded('global_mutations', mname, n,
                             lambda: take(m.global_mutations(node, exprs), 6),
                             text)
        props += p or []
    out = []
    for simp in props:
        t, fine = ex.guarded(
            'apply_simp', mname, n, lambda: ns.nodes.reduplicate(
                ns.mutator_utils.apply_simp(exprs, simp)), text)
        if fine and t is not None:
            out.append(t)
    return out


PUMP_STEPS = 25


def pump_chain(ex, exprs, mname, i, t):
    """Does mutator ``mname`` at node ``i`` keep proposing strictly larger
    inputs for the input it produced?  Returns the chain of states if it
    does so PUMP_STEPS times."""
    ns = ex.ns
    states = [exprs, t]
    for _ in range(PUMP_STEPS):
        cur = states[-1]
        size = ns.nodes.count_nodes(cur)
        nxt = [u for u in single_successors(ex, cur, i, mname)
               if ns.nodes.count_nodes(u) > size]
        if not nxt:
            return None
        states.append(nxt[0])
    return states


def take(it, k):
    out = []
    for x in it:
        out.append(x)
        if len(out) >= k:
            break
    return out


def exhaustive_depth2(ex, ns, res, text, origin, cap_states=40):
    """All one-step no-ops and all 2-cycles from seed ``text``."""
    exprs = list(ns.nodeio.parse_smtlib(text))
    k0 = ex.key(exprs)
    succ = ex.successors(exprs)
    res.count('states_expanded')
    seen = {}
    cands = []
    size0 = ns.nodes.count_nodes(exprs)
    pumped = set()
    for mname, i, t in succ:
        res.count('edges')
        kt = ex.key(t)
        if kt == k0:
            cands.append(('noop', [(mname, i)], [exprs, t]))
            continue
        seen.setdefault(kt, (mname, i, t))
        if ns.nodes.count_nodes(t) > size0 and (mname, i) not in pumped:
            pumped.add((mname, i))
            res.count('growth_steps_followed')
            chain = pump_chain(ex, exprs, mname, i, t)
            if chain:
                cands.append(('pump', [(mname, i)] * (len(chain) - 1),
                              chain))
    res.add_set('distinct_states', common.digest(k0))
    edges = {}  # (key of t, key of t') -> (mutator, node) among depth-1 states
    back = set()
    # a 2-cycle through the seed needs a step that does not shrink the
    # input: expand the largest successors first (the cap then cuts off
    # shrinking steps only)
    order = sorted(seen.items(),
                   key=lambda kv: -ns.nodes.count_nodes(kv[1][2]))
    if len(order) > cap_states:
        res.count('depth1_states_not_expanded', len(order) - cap_states)
    for kt, (mname, i, t) in order[:cap_states]:
        res.count('states_expanded')
        res.add_set('distinct_states', common.digest(kt))
        for m2, j, u in ex.successors(t):
            res.count('edges')
            ku = ex.key(u)
            if ku == k0 and kt not in back:
                back.add(kt)
                cands.append(('2-cycle', [(mname, i), (m2, j)],
                              [exprs, t, u]))
            elif ku in seen and ku != kt:
                edges.setdefault((kt, ku), (m2, j))
    # 2-cycles between two successors of the seed
    for (ka, kb), (m1, i1) in edges.items():
        if ka < kb and (kb, ka) in edges:
            m2, i2 = edges[(kb, ka)]
            ta, tb = seen[ka][2], seen[kb][2]
            cands.append(('2-cycle', [(m1, i1), (m2, i2)], [ta, tb, ta]))
    return cands


def same_size_cycles(ex, ns, res, text, max_depth=3, cap=25):
    """Cycles made of size-preserving proposals only (renamings, variable
    for variable, constant for constant ...): depth-first search from the
    seed with revisit detection on the current path."""
    exprs = list(ns.nodeio.parse_smtlib(text))
    size0 = ns.nodes.count_nodes(exprs)
    found = []
    budget = [cap]
    seen_cycles = set()

    def dfs(state, path_keys, path_states, names):
        if budget[0] <= 0 or len(path_keys) > max_depth:
            return
        budget[0] -= 1
        res.count('states_expanded')
        for mname, i, t in ex.successors(state, cap_per_node=4):
            if ns.nodes.count_nodes(t) != size0:
                continue
            res.count('edges')
            k = ex.key(t)
            if k in path_keys:
                j = path_keys.index(k)
                cyc = tuple(sorted(set(n for n, _ in names[j:] + [(mname,
                                                                   i)])))
                if len(path_keys) - j >= 1 and cyc not in seen_cycles:
                    seen_cycles.add(cyc)
                    kind = 'noop' if k == path_keys[-1] else \
                        f'{len(path_keys) - j}-cycle'
                    found.append((kind, names[j:] + [(mname, i)],
                                  path_states[j:] + [t]))
                continue
            dfs(t, path_keys + [k], path_states + [t], names + [(mname, i)])

    dfs(exprs, [ex.key(exprs)], [exprs], [])
    return found


def growth_cycles(ex, ns, res, text, depth=3, cap=60, breadth=10):
    """Cycles that start with a step which *enlarges* the seed (a variable
    eliminated in favour of a term, a function inlined, a fresh variable
    declared ...) and come back to it within ``depth`` steps.  After the
    first step the states closest to the seed (symmetric difference of the
    token multisets) are expanded first: the way back has to undo the
    growth."""
    import collections
    exprs = list(ns.nodeio.parse_smtlib(text))
    k0 = ex.key(exprs)
    size0 = ns.nodes.count_nodes(exprs)
    toks0 = collections.Counter(k0.split('\x00'))
    found = []
    budget = [cap]

    def dist(t):
        c = collections.Counter(ex.key(t).split('\x00'))
        return sum(((c - toks0) + (toks0 - c)).values())

    def dfs(state, names, states, d):
        if budget[0] <= 0 or found:
            return
        budget[0] -= 1
        res.count('states_expanded')
        res.count('growth_search_states')
        succ = ex.successors(state, cap_per_node=4)
        keyed = []
        seen = {ex.key(x) for x in states[1:]}
        for m, i, t in succ:
            res.count('edges')
            k = ex.key(t)
            if k == k0:
                found.append((f'{len(names) + 1}-cycle', names + [(m, i)],
                              states + [t]))
                return
            if k not in seen:
                seen.add(k)
                keyed.append((dist(t), m, i, t))
        if d + 1 < depth:
            keyed.sort(key=lambda x: x[0])
            for _, m, i, t in keyed[:breadth]:
                dfs(t, names + [(m, i)], states + [t], d + 1)

    # (a step that adds a command counts as growth even if the input gets
    # smaller: a declaration for a fresh variable that replaces a large term)
    first = [(m, i, t) for m, i, t in ex.successors(exprs)
             if ns.nodes.count_nodes(t) > size0 or len(t) > len(exprs)]
    res.count('states_expanded')
    seen_first = set()
    for m, i, t in first:
        k = ex.key(t)
        if k in seen_first:
            continue
        seen_first.add(k)
        res.count('growth_first_steps')
        dfs(t, [(m, i)], [exprs, t], 1)
    return found


def random_walk(ex, ns, res, r, text, steps=40):
    exprs = list(ns.nodeio.parse_smtlib(text))
    path = [ex.key(exprs)]
    states = [exprs]
    names = []
    for _ in range(steps):
        succ = ex.successors(states[-1], cap_per_node=3, rnd=r,
                             sample_nodes=6)
        res.count('states_expanded')
        if not succ:
            break
        # any of the proposals seen here that leads back closes a cycle
        hit = None
        for mname, i, t in succ:
            k = ex.key(t)
            if k in path:
                hit = (mname, i, t, k)
                break
        if hit:
            mname, i, t, k = hit
            names.append((mname, i))
            j = path.index(k)
            return [(f'{len(path) - j}-cycle' if len(path) - j > 1 or
                     k != path[-1] else 'noop', names[j:],
                     states[j:] + [t])]
        # prefer size-non-decreasing steps: a cycle needs one
        cur = ns.nodes.count_nodes(states[-1])
        pick = r.sample(succ, min(8, len(succ)))
        nondecr = [s for s in pick if ns.nodes.count_nodes(s[2]) >= cur]
        mname, i, t = r.choice(nondecr or pick)
        res.count('edges')
        k = ex.key(t)
        names.append((mname, i))
        if k in path:
            j = path.index(k)
            return [(f'{len(path) - j}-cycle' if len(path) - j > 1 or
                     k != path[-1] else 'noop', names[j:],
                     states[j:] + [t])]
        path.append(k)
        states.append(t)
        res.add_set('distinct_states', common.digest(k))
        res.cmax('max_chain_length', len(path))
        if ns.nodes.count_nodes(t) > 400:
            break
    return []


def _count_writes(wd):
    try:
        with open(os.path.join(wd, 'events.jsonl'), 'rb') as f:
            return f.read().count(b'"ev": "write"')
    except OSError:
        return 0


def confirm(res, base, ns, cand, origin, idx, dec=False):
    """Replay a candidate on the real tool with a command that accepts
    exactly the members of the chain."""
    kind, names, states = cand
    texts = [refreader.render(refmodel.to_nested_list(s)) for s in states]
    wd = os.path.join(base, f'confirm{idx}')
    os.makedirs(wd, exist_ok=True)
    setfile = os.path.join(wd, 'set.txt')
    with open(setfile, 'w') as f:
        for t in texts:
            f.write(refreader.token_digest(t) + '\n')
    rules = [realrun.rule(f'set:{setfile}', 1, 'member\n', ''),
             realrun.rule('all', 0, 'other\n', '')]
    mnames = sorted({n.split('(')[0] for n, _ in names})
    mode = ['--replace-by-variable-mode', 'dec'] if dec or any(
        n.endswith('(dec)') for n, _ in names) else []
    confirmed = False
    for strat in ('hierarchical', 'ddmin'):
        run = realrun.run_ddsmt(
            os.path.join(wd, strat), texts[0], rules,
            opts=['--strategy', strat, '-j', '1', '--timeout', '20',
                  '--bv', '--fp', '--strings', '--datatypes',
                  '--arithmetic'] + mode,
            launcher={'monitors': ['write']}, timeout=40,
            stop_when=lambda wd_, lim=(len(states) - 6 if kind == 'pump'
                                       else 3 * len(states) + 10):
            _count_writes(wd_) > lim + 5)
        res.count('confirmation_runs')
        writes = [e for e in run.events if e['ev'] == 'write']
        # the command accepts exactly the members of the chain, so a run
        # without a repetition writes at most len(states) times
        limit = 3 * len(states) + 10
        if kind == 'pump':
            # the chain itself is the evidence (the same mutator enlarged
            # its own result PUMP_STEPS times); the real tool must be seen
            # to follow it
            limit = len(states) - 6
        if len(writes) > limit or (run.timed_out and len(writes) > limit):
            confirmed = True
            res.violation(
                classify(kind, mnames, texts),
                f'{kind} {names}: the real tool ({strat}) accepted '
                f'{len(writes)} simplifications on a chain of '
                f'{len(states)} inputs without stopping', {
                    'kind': kind,
                    'steps': names,
                    'chain': texts,
                    'strategy': strat,
                    'writes': len(writes),
                    'timed_out': run.timed_out,
                    'dec_mode': bool(mode),
                    'origin': origin
                })
            break
    shutil.rmtree(wd, ignore_errors=True)
    if not confirmed:
        res.count('candidates_not_confirmed')
        res.add_set('unconfirmed_candidates',
                    f'{kind}:' + '+'.join(mnames))
    return confirmed


def classify(kind, mnames, texts):
    """Mechanism key of a confirmed chain."""
    toks = refreader.lex(texts[0])
    declared = {toks[i + 2] for i in range(len(toks) - 2)
                if toks[i] == '(' and toks[i + 1] in (
                    'declare-const', 'declare-fun', 'define-fun')}
    alltoks = set()
    for t in texts:
        alltoks.update(refreader.lex(t))
    if any(f'|{n}|' in declared for n in declared) or any(
            t.startswith('|') and t[1:-1] in (declared | alltoks)
            for t in alltoks if len(t) > 2):
        return 'cycle:simple-and-quoted-form-both-declared'
    if set(mnames) == {'EliminateVariable', 'ReplaceByVariable'} and \
            len({len(refreader.lex(t)) for t in texts}) > 1:
        # a variable eliminated in favour of a *compound* term (the inputs
        # of the chain differ in size), and the term replaced by that
        # variable again; variable-for-variable cycles keep the size
        return 'cycle:EliminateVariable+ReplaceByVariable:compound-term'
    return f'{kind if kind in ("noop", "pump") else "cycle"}:' + \
        '+'.join(mnames)


def bounded_progress_run(res, base, r, idx):
    """W3: a real run with a permissive predicate."""
    s = workload.small_script(r, r.choice(['tiny', 'small']))
    text = workload.render_with_noise(r, s.nested(), comments=False)
    rules, pred = workload.pick_spec(r, text, families=['all', 'has',
                                                        'ntok', 'balanced'])
    strat = r.choice(workload.STRATEGIES)
    opts = ['--strategy', strat, '-j', str(r.choice([1, 4])), '--timeout',
            '20', '--bv', '--fp', '--strings', '--datatypes', '--arithmetic']
    wd = os.path.join(base, f'w3_{idx}')
    judge_progress(res, wd, text, rules, opts)


def judge_progress(res, wd, text, rules, opts):
    shutil.rmtree(wd, ignore_errors=True)
    run = realrun.run_ddsmt(wd, text, rules, opts=opts,
                            launcher={'monitors': ['write']}, timeout=150)
    shutil.rmtree(wd, ignore_errors=True)
    res.count('evaluations')
    res.count('bounded_progress_runs')
    n = len(refreader.strip_comments(refreader.lex(text)))
    writes = [e for e in run.events if e['ev'] == 'write']
    F = 50 * n + 200
    res.cmax('max_accepted_steps_over_F_x1000', int(1000 * len(writes) / F))
    if len(writes) > F or run.timed_out:
        tds = [w['td'] for w in writes]
        repeated = len(set(tds)) < len(tds) - 5
        sizes = [w.get('nbytes') or 0 for w in writes[-50:]]
        growing = len(sizes) >= 50 and all(b > a for a, b in
                                           zip(sizes, sizes[1:]))
        if repeated or growing:
            # mechanism: the mutators that keep being accepted at the end
            import re
            last = re.findall(r'CHAT\] #\d+: (?:\(global\) )?([^(]+?) \(',
                              run.stderr[-6000:])[-40:]
            mech = '+'.join(sorted(set(x.strip().replace(' ', '-')
                                       for x in last))) or '?'
            res.violation(
                'unbounded-run:' + ('cycle' if repeated else 'pump') + ':' +
                mech,
                f'{len(writes)} accepted steps on an input of {n} tokens '
                f'(bound {F}); ' + ('a written content repeats' if repeated
                                    else 'the output keeps growing'),
                {'input': text, 'rules': rules, 'opts': opts})
        else:
            res.count('runs_over_budget_inconclusive')


def scaling_input(r):
    """A deep or wide term of one repeated shape: a cost per call that is
    exponential (or of high degree) in the depth shows here and on no small
    input.  Half of them rest on a symbol that is not declared, so that
    nothing about the term can be inferred."""
    d = r.randint(8, 40)
    shape = r.choice(['left', 'right', 'let', 'not', 'ite', 'extend', 'wide',
                      'apply', 'concat', 'strcat'])
    declared = r.random() < 0.5
    sort = {'not': 'Bool', 'ite': 'Bool', 'extend': '(_ BitVec 4)',
            'concat': '(_ BitVec 2)', 'strcat': 'String'}.get(shape, 'Int')
    decls = [f'(declare-const u {sort})'] if declared else []
    t = 'u'
    if shape in ('left', 'right'):
        op = r.choice(['+', '-', '*'])
        for _ in range(d):
            t = f'({op} {t} 1)' if shape == 'left' else f'({op} 1 {t})'
        t = f'(> {t} 0)'
    elif shape == 'let':
        body = f'v{d - 1}'
        t = f'(> {body} 0)'
        for i in reversed(range(d)):
            prev = 'u' if i == 0 else f'v{i - 1}'
            t = f'(let ((v{i} (+ {prev} 1))) {t})'
    elif shape == 'not':
        for _ in range(d):
            t = f'(not {t})'
    elif shape == 'ite':
        for _ in range(d):
            t = f'(ite u {t} u)'
    elif shape == 'extend':
        for _ in range(d):
            t = f'((_ {r.choice(["zero_extend", "sign_extend"])} 1) {t})'
        t = f'(= {t} {t})' if d < 12 else f'(bvult {t} {t})'
    elif shape == 'wide':
        t = '(and ' + ' '.join(['(> u 0)'] * (2 * d)) + ')'
    elif shape == 'apply':
        decls.append('(declare-fun f (Int) Int)' if declared else '')
        for _ in range(d):
            t = f'(f {t})'
        t = f'(> {t} 0)'
    elif shape == 'concat':
        for _ in range(d):
            t = f'(concat {t} u)' if r.random() < 0.5 else f'(concat u {t})'
        t = f'(= {t} {t})' if d < 10 else f'(bvult {t} #b0)'
    elif shape == 'strcat':
        for _ in range(d):
            t = f'(str.++ {t} "a")'
        t = f'(= {t} "")'
    text = '\n'.join([x for x in decls if x] + [f'(assert {t})',
                                                '(check-sat)']) + '\n'
    return text, f'{shape}:{"declared" if declared else "undeclared"}', d


def shard(args):
    from vlib import dd
    ns = dd.load()
    res = common.ShardResult()
    r = common.rng('c03', args['shard'])
    ex = Explorer(ns, res)
    base = common.scratch_dir('c03')
    cands = []
    try:
        seeds = [t for k, t in enumerate(CATALOGUE)
                 if k % common.NCPU == args['shard']]
        ncat = len(seeds)
        for i in range(args['tiny']):
            pool = ['ints', 'reals', 'bv', 'fp', 'strings', 'arrays', 'dt',
                    'uf', 'let', 'quant', 'defs', 'annot']
            g = gen_smt.Gen(r, ['core'] + r.sample(pool, r.randint(1, 4)),
                            max_bv=4)
            s = g.script(nasserts=1, depth=1)
            extra = shapes.inject_shapes(g, r, depth=0, extra=True, count=1)
            cmds = list(s.cmds)
            known = {id(c) for c in cmds}
            nd = [c for c in g.commands if id(c) not in known]
            cmds = [c for c in cmds if not (isinstance(c, list) and c[0] in
                                            ('set-info', 'set-option',
                                             'get-model', 'exit'))]
            fa = next((k for k, c in enumerate(cmds)
                       if isinstance(c, gen_smt.Cmd)
                       and c.items[0] == 'assert'), len(cmds))
            cmds = cmds[:fa] + nd + [gen_smt.Cmd(['assert', t])
                                     for t in extra] + cmds[fa:]
            seeds.append(refreader.render(gen_smt.Script(cmds).nested()))
        for si, text in enumerate(seeds):
            nnodes = len(refreader.lex(text))
            res.count('tiny_seeds')
            modes = ['inc', 'dec'] if si < ncat else [
                'inc' if si % 3 else 'dec']
            for mode in modes:
                ex.set_mode(mode)
                res.count(f'explorations_mode_{mode}')
                if nnodes <= 160:
                    cands += [(c, f'seed{args["shard"]}:{si}:{mode}')
                              for c in exhaustive_depth2(ex, ns, res, text,
                                                         si)]
                if si < ncat and nnodes <= 80:
                    cands += [(c, f'seed{args["shard"]}:{si}:{mode}:same')
                              for c in same_size_cycles(
                                  ex, ns, res, text, args.get('ss_depth', 3),
                                  args.get('ss_cap', 25))]
            ex.set_mode('inc')
            if nnodes <= 80 and (si < ncat or si % 2 == 0):
                cands += [(c, f'seed{args["shard"]}:{si}:inc:growth')
                          for c in growth_cycles(
                              ex, ns, res, text, args.get('g_depth', 3),
                              args.get('g_cap', 40))]
            res.add_distinct(common.digest(text))
            if si < 1:
                res.sample({'seed': text})
        for wi in range(args['walks']):
            ex.set_mode('inc' if wi % 3 else 'dec')
            s = workload.small_script(r, r.choice(['tiny', 'small']))
            text = refreader.render(s.nested())
            res.count('walks')
            cands += [(c, f'walk{args["shard"]}:{wi}')
                      for c in random_walk(ex, ns, res, r, text)]
            res.add_distinct(common.digest(text))
        # per-call cost on deep / wide inputs (every mutator at every node)
        for k in range(args.get('scaling', 2)):
            text, shape, d = scaling_input(r)
            exprs = list(ns.nodeio.parse_smtlib(text))
            res.count('scaling_inputs')
            res.cmax('max_scaling_depth', d)
            res.add_set('scaling_shapes', shape)
            before = res.counters.get('budgeted_calls', 0)
            ex.successors(exprs, cap_per_node=2)
            res.count('scaling_budgeted_calls',
                      res.counters.get('budgeted_calls', 0) - before)
        # confirmation of candidates on the real tool (dedupe by mechanism)
        done = set()
        prio = {'pump': 0, 'noop': 1}
        cands.sort(key=lambda c: prio.get(c[0][0], 2))
        ncap = args['confirm']
        for ci, (cand, origin) in enumerate(cands):
            res.count('cycle_or_noop_candidates')
            names = {n for n, _ in cand[1]}
            dec = ':dec' in origin or any(n.endswith('(dec)') for n in names)
            # one confirmation per mechanism *and seed*: the same pair of
            # mutators can cycle for different reasons on different inputs
            seed_id = ':'.join(origin.split(':')[:2])
            sig = (cand[0], tuple(sorted(names)), dec, seed_id)
            if sig in done or len(done) >= ncap:
                continue
            done.add(sig)
            confirm(res, base, ns, cand, origin, ci, dec)
        ex.set_mode('inc')
        for i in range(args['w3']):
            bounded_progress_run(res, base, r, i)
    finally:
        shutil.rmtree(base, ignore_errors=True)
    return res.to_dict()


def run(ctx):
    q = ctx.tier == 'quick'
    shards = [{'shard': i, 'tiny': 2 if q else 60, 'walks': 2 if q else 80,
               'confirm': 3 if q else 12, 'w3': 2 if q else 20,
               'ss_depth': 3 if q else 4, 'ss_cap': 25 if q else 300,
               'scaling': 2 if q else 40, 'g_depth': 3 if q else 4,
               'g_cap': 40 if q else 400}
              for i in range(common.NCPU)]
    results = common.run_shards('checks.c03', shards, timeout=3500)
    common.merge_shards(ctx, results)
    ctx.extra['distinct_states_count'] = len(ctx.extra.get('distinct_states',
                                                           ()))
    ctx.extra.pop('distinct_states', None)
    ctx.rule = (
        'seeds: a catalogue of shapes that mutators rewrite in opposite '
        'directions + tiny gen_smt scripts with one injected mutator shape '
        '(all 1-step no-ops and all 2-cycles among all proposals of all 53 '
        'mutators, capped at 6 proposals per mutator and node); larger '
        'gen_smt scripts: biased random walks of <= 40 steps with revisit '
        'detection; every call of filter/mutations/global_mutations/'
        'apply_simp runs under a step budget (1+p)(10^4+200n+5n^2) and a '
        'node-allocation budget (1+p)(100+20n) for p proposals on n nodes, '
        'also on deep/wide single-shape terms (depth 8-40; nested '
        'arithmetic, let, not, ite, extensions, concat, applications; with '
        'and without a declaration of the innermost symbol); '
        'every cycle/no-op candidate is replayed on the real tool against a '
        'set: predicate; real runs with permissive predicates are held to '
        '50n+200 accepted steps; evaluations = proposals applied + real '
        'runs; distinct non-trivial = distinct seeds')
    ctx.assumptions = [
        'termination is decided as bounded progress + cycle/no-op/hang '
        'search, not for all inputs',
        'canonical state keys merge states that differ only in fresh-name '
        'digits; therefore every candidate must be confirmed by a real run '
        'before it is reported'
    ]
    if ctx.counters.get('edges', 0) < 1000:
        ctx.inconclusive_because('too few proposals explored')


def replay(data):
    from vlib import dd
    ns = dd.load()
    res = common.ShardResult()
    base = common.scratch_dir('c03r')
    try:
        for k, c in enumerate(data['cases']):
            w = c['witness']
            if 'chain' not in w and 'input' in w and 'rules' in w:
                judge_progress(res, os.path.join(base, f'rp{k}'), w['input'],
                               w['rules'], w['opts'])
            if 'chain' in w:
                states = [list(ns.nodeio.parse_smtlib(t)) for t in w['chain']]
                confirm(res, base, ns, (w['kind'], [tuple(x) for x in
                                                    w['steps']], states),
                        'replay', k, w.get('dec_mode', False))
    finally:
        shutil.rmtree(base, ignore_errors=True)
    for v in res.violations:
        print(v['key'], v['what'][:300])
    return 1 if res.violations else 0
