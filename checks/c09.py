"""C09 - a candidate is accepted iff it matches the golden run as documented.

The real checker.do_golden_runs() and checker.check() are driven in-process
with real sub-processes of the scripted command vcmd, whose exit code and
streams are selected by the content of the candidate file.  The verdict is
compared with an independent statement of the documented rule, evaluated on
the behaviour the command-side log recorded.  The product of option settings
and outcomes is enumerated exhaustively for the main command; argv and file
extension are checked on end-to-end runs.
"""
import itertools
import os
import shutil

from vlib import common, realrun

LEVEL = 'exploration'

# the golden streams are not pure text: each holds one byte that is not valid
# UTF-8 (written here as the surrogate that stands for it)
G_OUT = 'pre MO post \udcff\n'
G_ERR = 'pre ME post \udc80\n'
# 'eol': differs from the golden stream in its line terminator only;
# 'byte': differs in the undecodable byte only
OUTS = {'same': G_OUT, 'match': 'xx MO yy\n', 'nomatch': 'zz\n',
        'eol': G_OUT.replace('\n', '\r\n'),
        'byte': G_OUT.replace('\udcff', '\udcfe')}
ERRS = {'same': G_ERR, 'match': 'xx ME yy\n', 'nomatch': 'zz\n',
        'eol': G_ERR.replace('\n', '\r'),
        'byte': G_ERR.replace('\udc80', '\udc81')}
G_EXIT = 3
# the cross-check command has a golden behaviour of its own
C_OUT = 'cc MO out \udcfe\n'
C_ERR = 'cc ME err\n'
C_EXIT = 5
C_OUTS = {'same': C_OUT, 'match': 'MO only\n', 'nomatch': G_OUT.replace('MO', 'mo'),
          'eol': C_OUT.replace('\n', '\r\n'),
          'byte': C_OUT.replace('\udcfe', '\udcff')}
C_ERRS = {'same': C_ERR, 'match': 'ME only\n', 'nomatch': G_ERR.replace('ME', 'me'),
          'eol': C_ERR + '\n', 'byte': C_ERR.replace('err', 'er\udce9')}


def outcome_rules(prefix):
    """Spec: the token ``<prefix>_<exit>_<out>_<err>`` selects the outcome;
    anything else behaves like the golden run."""
    rules = []
    outcomes = []
    gex, gout, gerr, outs, errs = (G_EXIT, G_OUT, G_ERR, OUTS, ERRS) \
        if prefix == 'M' else (C_EXIT, C_OUT, C_ERR, C_OUTS, C_ERRS)
    for ex, o, e in itertools.product(('sameexit', 'diffexit'), outs, errs):
        tok = f'{prefix}_{ex}_{o}_{e}'
        # the 'different' exit code of one command is the golden exit code
        # of the other one
        code = gex if ex == 'sameexit' else (C_EXIT if prefix == 'M'
                                             else G_EXIT)
        rules.append(realrun.rule(f'has:{tok}', code, outs[o], errs[e]))
        outcomes.append((tok, (code, outs[o], errs[e])))
    rules.append(realrun.rule('all', gex, gout, gerr))
    return rules, outcomes


def setup(ns, wd, with_cc):
    """Prepare option namespace, spec files and the golden input file."""
    from ddsmt import checker, options, tmpfiles
    vc = realrun.vcmd_path()
    os.makedirs(wd, exist_ok=True)
    rules, outcomes = outcome_rules('M')
    spec = os.path.join(wd, 'spec.txt')
    with open(spec, 'w') as f:
        f.write('\n'.join(rules) + '\n')
    cc_rules, cc_outcomes = outcome_rules('C')
    spec_cc = os.path.join(wd, 'spec_cc.txt')
    with open(spec_cc, 'w') as f:
        f.write('\n'.join(cc_rules) + '\n')
    infile = os.path.join(wd, 'golden.smt2')
    with open(infile, 'w') as f:
        f.write('(golden input)\n')
    a = options.args()
    a.infile = infile
    a.outfile = os.path.join(wd, 'out.smt2')
    a.cmd = [vc, spec]
    a.cmd_cc = [vc, spec_cc] if with_cc else None
    a.timeout = 20.0
    a.timeout_cc = 20.0
    a.memout = None
    a.unchecked = False
    return outcomes, cc_outcomes


def set_options(a, ign_output, ign_out, ign_err, m_out, m_err,
                ign_cc=False, m_out_cc=None, m_err_cc=None):
    a.ignore_output = ign_output
    a.ignore_out = ign_out
    a.ignore_err = ign_err
    a.match_out = m_out
    a.match_err = m_err
    a.ignore_output_cc = ign_cc
    a.match_out_cc = m_out_cc
    a.match_err_cc = m_err_cc


def documented_verdict(main_opts, main_run, cc_opts=None, cc_run=None):
    ign_output, ign_out, ign_err, m_out, m_err = main_opts
    ok = realrun.matches((G_EXIT, G_OUT, G_ERR), main_run,
                         ignore_out=ign_output or ign_out,
                         ignore_err=ign_output or ign_err,
                         match_out=m_out, match_err=m_err)
    if ok and cc_opts is not None:
        ign_cc, m_out_cc, m_err_cc = cc_opts
        ok = realrun.matches((C_EXIT, C_OUT, C_ERR), cc_run,
                             ignore_out=ign_cc, ignore_err=ign_cc,
                             match_out=m_out_cc, match_err=m_err_cc)
    return ok


def shard(args):
    import sys
    sys.argv = ['ddsmt', 'in.smt2', 'out.smt2', 'cmd']
    from vlib import dd
    ns = dd.load()
    from ddsmt import checker, options
    res = common.ShardResult()
    wd = common.scratch_dir('c09')
    log = os.path.join(wd, 'cmd.log')
    os.environ['VCMD_LOG'] = log
    try:
        if args['kind'] == 'argv':
            return argv_runs(res, wd, args)
        with_cc = args['kind'] == 'cc'
        outcomes, cc_outcomes = setup(ns, wd, with_cc)
        a = options.args()
        r = common.rng('c09', args['shard'])
        main_sets = list(itertools.product(
            (False, True), (False, True), (False, True), (None, 'MO'),
            (None, 'ME')))
        cc_sets = list(itertools.product((False, True), (None, 'MO'),
                                         (None, 'ME')))
        if not with_cc:
            plan = [(m, None) for m in main_sets[args['lo']:args['hi']]]
        else:
            allp = list(itertools.product(main_sets, cc_sets))
            if args.get('sample'):
                plan = r.sample(allp, args['sample'])
            else:
                plan = allp[args['lo']:args['hi']]
        for main_opts, cc_opts in plan:
            set_options(a, *main_opts, *(cc_opts or (False, None, None)))
            if os.path.exists(log):
                os.unlink(log)
            checker.do_golden_runs()
            res.count('golden_runs')
            cands = outcomes
            ccs = cc_outcomes if with_cc else [(None, None)]
            if with_cc and args.get('sample'):
                pairs = [(r.choice(outcomes), c) for c in cc_outcomes] + \
                        [(m, r.choice(cc_outcomes)) for m in outcomes]
            else:
                pairs = list(itertools.product(cands, ccs))
            for (tok, beh), (ctok, cbeh) in pairs:
                f = os.path.join(wd, 'cand.smt2')
                with open(f, 'w') as fh:
                    fh.write(f'({tok} {ctok or ""})\n')
                n0 = len(realrun.read_jsonl(log)) if args.get(
                    'verify_log') else None
                got = checker.check(f)
                want = documented_verdict(main_opts, beh, cc_opts, cbeh)
                res.count('evaluations')
                res.count('verdict_accept' if got else 'verdict_reject')
                res.add_distinct(
                    common.digest(repr((main_opts, cc_opts, beh, cbeh))))
                res.add_set('rows', f'{main_opts}|{cc_opts}|{want}')
                if bool(got) != bool(want):
                    res.violation(
                        classify(main_opts, cc_opts, beh, cbeh),
                        f'check() = {got} but the documented rule gives '
                        f'{want} for options main={main_opts} cc={cc_opts}, '
                        f'candidate {beh!r} / cc {cbeh!r}', {
                            'main_options': main_opts,
                            'cc_options': cc_opts,
                            'candidate': beh,
                            'cc_candidate': cbeh,
                            'golden': (G_EXIT, G_OUT, G_ERR)
                        })
            # the behaviours the command really showed (command-side log)
            ents = realrun.read_jsonl(log)
            res.count('command_invocations', len(ents))
            if len(res.samples) < 1:
                res.sample({'options': {'main': main_opts, 'cc': cc_opts},
                            'first_log_entries': ents[:3]})
        if args['kind'] == 'main' and args['lo'] == 0:
            unchecked_cases(res, ns, wd, log, outcomes)
        if args['kind'] == 'main' and args['lo'] == 4:
            exit_status_cases(res, ns, wd, log)
    finally:
        shutil.rmtree(wd, ignore_errors=True)
    return res.to_dict()


STATUSES = [('e0', 0, None), ('e1', 1, None), ('e2', 2, None),
            ('e127', 127, None), ('e255', 255, None), ('sabrt', -6, 'abort'),
            ('skill', -9, 'kill'), ('ssegv', -11, 'segv')]


def exit_status_cases(res, ns, wd, log):
    """The exit-status clause over the whole range of statuses a command can
    end with (exit codes 0..255 and deaths from a signal), golden x
    candidate, with the streams equal: accepted iff the statuses are equal.
    The statuses come from real process runs."""
    from ddsmt import checker, options
    vc = realrun.vcmd_path()
    a = options.args()
    for gname, gcode, gfault in STATUSES:
        rules = []
        for name, code, fault in STATUSES:
            rules.append(realrun.rule(f'has:X_{name}', max(code, 0), '', '',
                                      fault=fault))
        rules.append(realrun.rule('all', max(gcode, 0), '', '', fault=gfault))
        spec = os.path.join(wd, f'spec_exit_{gname}.txt')
        with open(spec, 'w') as f:
            f.write('\n'.join(rules) + '\n')
        a.cmd = [vc, spec]
        a.cmd_cc = None
        for ign in (False, True):
            set_options(a, ign, False, False, None, None)
            checker.do_golden_runs()
            for name, code, fault in STATUSES:
                f = os.path.join(wd, 'cand.smt2')
                with open(f, 'w') as fh:
                    fh.write(f'(X_{name})\n')
                got = checker.check(f)
                want = code == gcode
                res.count('evaluations')
                res.count('exit_status_pairs')
                res.count('verdict_accept' if got else 'verdict_reject')
                res.add_distinct(common.digest(repr(('exit', gname, name,
                                                     ign))))
                if bool(got) != want:
                    res.violation(
                        'exit-status-comparison',
                        f'golden run ends with status {gcode}, candidate '
                        f'with status {code} (streams equal, '
                        f'ignore-output={ign}): check() = {got}', {
                            'golden_status': gcode,
                            'candidate_status': code,
                            'ignore_output': ign
                        })


def classify(main_opts, cc_opts, beh, cbeh):
    if cc_opts is not None and realrun.matches(
            (G_EXIT, G_OUT, G_ERR), beh,
            ignore_out=main_opts[0] or main_opts[1],
            ignore_err=main_opts[0] or main_opts[2],
            match_out=main_opts[3], match_err=main_opts[4]):
        return 'cross-check-comparison'
    return 'main-comparison'


def unchecked_cases(res, ns, wd, log, outcomes):
    from ddsmt import checker, options
    a = options.args()
    a.unchecked = True
    try:
        for ign in (False, True):
            set_options(a, ign, False, False, None, None)
            if os.path.exists(log):
                os.unlink(log)
            checker.do_golden_runs()
            for tok, beh in outcomes:
                f = os.path.join(wd, 'cand.smt2')
                with open(f, 'w') as fh:
                    fh.write(f'({tok})\n')
                got = checker.check(f)
                res.count('evaluations')
                res.count('unchecked_checks')
                if not got:
                    res.violation('unchecked-rejects',
                                  '--unchecked rejected a candidate',
                                  {'candidate': beh})
            if realrun.read_jsonl(log):
                res.violation('unchecked-runs-command',
                              '--unchecked ran the command',
                              {'log': realrun.read_jsonl(log)[:3]})
    finally:
        a.unchecked = False


def argv_runs(res, wd, args):
    """End-to-end: argv seen by the command and the file extension."""
    r = common.rng('c09-argv', args['shard'])
    text = ('(declare-const x Int)\n(declare-const y Int)\n'
            '(assert (> x y))\n(assert (< y 3))\n(check-sat)\n')
    names = ['in.smt2', 'in.smt', 'in.sy', 'noext', 'a.b.c', 'in.SMT2',
             '.hidden',
             # the named input file is a symbolic link to a file with
             # another extension or none
             ('latest.smt2', 'store/SHA256-s36--9f2c41d07be3'),
             ('bench.smt2', 'store/data.txt'), ('plain', 'store/x.smt2')]
    k = 0
    for name in names:
        target = None
        if isinstance(name, tuple):
            name, target = name
        for extra in ([], ['--flag'], ['-a', 'b c'.replace(' ', '_'), '3']):
            for strat, j in (('ddmin', 1), ('hierarchical', 2), ('ddmin',
                                                                 4)):
                if k % args['mod'] != args['shard']:
                    k += 1
                    continue
                k += 1
                d = os.path.join(wd, f'argv{k}')
                rules = realrun.simple_spec('has:x')
                run = realrun.run_ddsmt(
                    d, text, rules, infile_name=name,
                    infile_link_target=target,
                    outfile_name='result.out',
                    extra_cmd_args=extra,
                    opts=['--strategy', strat, '-j', str(j), '--timeout',
                          '20'])
                res.count('evaluations')
                res.count('argv_runs')
                ext = os.path.splitext(name)[1]
                res.add_set('argv_shapes', f'{ext or "<none>"}+{len(extra)}')
                orig = [run.specfile] + list(extra)
                for e in run.cmdlog:
                    av = e['argv']
                    ok = (av[1:-1] == orig and len(av) == len(orig) + 2)
                    fname = av[-1]
                    okext = os.path.splitext(fname)[1] == ext
                    if not ok or not okext:
                        res.violation(
                            'argv' if not ok else 'file-extension',
                            f'the command saw argv {av}; expected original '
                            f'arguments {orig} followed by one file with '
                            f'extension {ext!r}', {
                                'argv': av,
                                'input_name': name,
                                'input_is_link_to': target,
                                'extra': extra
                            })
                        break
                if len(run.cmdlog) < 2:
                    res.count('argv_runs_without_tests')
                shutil.rmtree(d, ignore_errors=True)
    return res.to_dict()


def run(ctx):
    shards = []
    # main product: 32 option sets x 50 outcomes, exhaustive, 8 shards
    for i in range(8):
        shards.append({'kind': 'main', 'shard': i, 'lo': 4 * i,
                       'hi': 4 * i + 4})
    if ctx.tier == 'quick':
        for i in range(8):
            shards.append({'kind': 'cc', 'shard': 100 + i, 'sample': 32})
    else:
        # full product: 256 (main, cc) option pairs x 50 x 50 outcomes
        for i in range(32):
            shards.append({'kind': 'cc', 'shard': 100 + i, 'lo': 8 * i,
                           'hi': 8 * i + 8})
    for i in range(4):
        shards.append({'kind': 'argv', 'shard': i, 'mod': 4})
    results = common.run_shards('checks.c09', shards, timeout=3400)
    common.merge_shards(ctx, results)
    # the same rule as an oracle over every verdict of real parallel runs
    from checks import c09_real
    c09_real.run(ctx)
    ctx.rule = (
        'main command: all 32 settings of --ignore-output/--ignore-out/'
        '--ignore-err/--match-out/--match-err x all 50 candidate outcomes '
        '(exit same/different x stdout same/differs-with-match/differs-'
        'without/differs-only-in-line-terminator/differs-only-in-a-byte-'
        'that-is-not-UTF-8 x stderr likewise; the golden streams hold such '
        'a byte), exhaustive; with a cross-check command: '
        + ('sampled option pairs, each with all 50 cc outcomes and all 50 '
           'main outcomes varied one at a time' if ctx.tier == 'quick' else
           'all 256 option pairs x 50 x 50 outcomes, exhaustive') +
        '; --unchecked with every outcome; 8 golden x 8 candidate exit '
        'statuses (0,1,2,127,255, SIGABRT, SIGKILL, SIGSEGV) from real '
        'process runs; argv/extension on end-to-end '
        'runs (7 input names x 3 argument lists x 3 configurations); real '
        'parallel runs (-j 2..8, all strategies, slow-starting command, '
        'injected delays): every verdict a worker returns is compared with '
        'the rule applied to the scripted command\'s answer for that very '
        'candidate; '
        'distinct non-trivial = distinct (options, outcome) rows')
    ctx.extra['main_product_exhaustive'] = True
    ctx.exhaustive = ctx.tier == 'thorough'
    ctx.assumptions = [
        'the documented rule (docs/quickstart.rst): exit codes equal and per '
        'stream ignored / contains the match string / equals the golden '
        'stream; the same for the cross-check command against its own '
        'golden run',
        '--unchecked with a match string not contained in "unchecked" stops '
        'at the golden run (usage error), not exercised'
    ]
    if ctx.counters.get('verdict_accept', 0) == 0 or ctx.counters.get(
            'verdict_reject', 0) == 0:
        ctx.inconclusive_because('only one verdict value was observed')
    if ctx.counters.get('argv_runs', 0) == 0:
        ctx.inconclusive_because('no argv run')


def replay(data):
    print('C09 cases are enumerated deterministically: re-run the check')
    return 1
