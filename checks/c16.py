"""C16 - inferred sorts and bit-widths are never wrong.

Ground truth: the typing gen_smt attaches to every term it builds.  For every
term position of a generated well-sorted script (every symbol bound once) the
real smtlib.get_sort / get_bv_width must answer 'unknown' or the true sort /
width.
"""
from vlib import common, gen_smt, refreader, refmodel

LEVEL = 'exploration'


def node_at(exprs, path):
    n = exprs[path[0]]
    for i in path[1:]:
        n = n.data[i]
    return n


def check_script(ns, res, script, origin):
    text = script.text()
    exprs = list(ns.nodeio.parse_smtlib(text))
    nested = script.nested()
    if refmodel.to_nested_list(exprs) != nested:
        raise AssertionError('harness: parse of rendered script differs')
    try:
        ns.smtlib.collect_information(exprs)
    except Exception as e:  # noqa
        res.count('evaluations')
        res.violation(
            f'table-construction-raises:{type(e).__name__}',
            f'collect_information raised {type(e).__name__}: {e} on a '
            f'well-sorted script', {'script': text, 'origin': origin})
        return 0
    dtnames = set()
    unames = set()
    for c in nested:
        if c[0] == 'declare-datatype':
            dtnames.add(c[1])
        elif c[0] == 'declare-datatypes':
            dtnames.update(x[0] for x in c[1])
        elif c[0] == 'declare-sort':
            unames.add(c[1])
    npos = 0
    wrong = []  # (path, key, what, witness)
    res_violation = res.violation

    def defer(key, what, witness, _path=None):
        wrong.append((_cur[0], key, what, witness))

    _cur = [None]
    res = _Deferred(res, defer)
    for path, term in script.positions():
        _cur[0] = path
        npos += 1
        node = node_at(exprs, path)
        op = term.op or ('leaf' if term.leaf is not None else '?')
        true_sort = term.sort
        res.count('evaluations')
        res.add_set('ops_exercised', f'{op}:{true_sort[0]}')
        # ---- get_sort
        try:
            got = ns.smtlib.get_sort(node)
            exc = None
        except Exception as e:  # noqa
            got = None
            exc = type(e).__name__
        if exc:
            res.count('get_sort_exceptions')
            res.add_set('exceptions', f'get_sort:{op}:{exc}')
        elif got is None:
            res.count('sort_unknown')
        else:
            gn = refmodel.to_nested(got)
            gs = gen_smt.sort_from_nested(gn, dtnames, unames)
            if gs == true_sort:
                res.count('sort_right')
                res.add_set('ops_sort_right', op)
            else:
                res.violation(
                    f'sort:{op}',
                    f'get_sort({refreader.render([term.nested()]).strip()}) '
                    f'= {gn!r} but the term has sort '
                    f'{gen_smt.sort_nested(true_sort, False)!r}', {
                        'term': term.nested(),
                        'true_sort': gen_smt.sort_nested(true_sort, False),
                        'inferred': gn,
                        'script': text,
                        'origin': origin
                    })
        # ---- get_bv_width
        try:
            w = ns.smtlib.get_bv_width(node)
            exc = None
        except Exception as e:  # noqa
            w = None
            exc = type(e).__name__
        if exc:
            res.count('get_bv_width_exceptions')
            res.add_set('exceptions', f'get_bv_width:{op}:{exc}')
        elif w == -1:
            res.count('width_unknown')
        else:
            if true_sort[0] == 'BV' and w == true_sort[1]:
                res.count('width_right')
            else:
                res.violation(
                    f'width:{op}',
                    f'get_bv_width({refreader.render([term.nested()]).strip()}'
                    f') = {w} but the term has sort '
                    f'{gen_smt.sort_nested(true_sort, False)!r}', {
                        'term': term.nested(),
                        'true_sort': gen_smt.sort_nested(true_sort, False),
                        'inferred_width': w,
                        'script': text,
                        'origin': origin
                    })
    res = res.inner
    # report only innermost wrong positions: a wrong answer above another
    # wrong answer is (most likely) a consequence of it
    wrong_paths = {w[0] for w in wrong}
    for path, key, what, witness in wrong:
        if any(len(q) > len(path) and q[:len(path)] == path
               for q in wrong_paths):
            res.count('cascaded_wrong_answers')
            continue
        res.violation(key, what, witness)
    return npos


class _Deferred:
    """Proxy for ShardResult that defers violations."""

    def __init__(self, inner, defer):
        self.inner = inner
        self._defer = defer

    def violation(self, key, what, witness):
        self._defer(key, what, witness)

    def __getattr__(self, name):
        return getattr(self.inner, name)


def cvc5_accepts(path):
    import subprocess
    p = subprocess.run(['cvc5', '--parse-only', '--lang=smt2', path],
                       capture_output=True, text=True, timeout=120)
    return p.returncode == 0, (p.stdout + p.stderr)[:400]


def consequence(ns, res, r, script, origin, scratch, budget_left):
    """The consequence clause: replacing a term by a default constant, an
    existing variable, a child or a fresh variable 'of the same sort' gives a
    well-sorted script.  Reference: cvc5's own sort checker."""
    import os
    nested = [c for c in script.nested() if c[0] not in (
        'check-sat', 'check-sat-assuming', 'get-model', 'exit')]
    text = refreader.render(nested)
    path = os.path.join(scratch, 'c.smt2')
    with open(path, 'w') as f:
        f.write(text)
    ok, _ = cvc5_accepts(path)
    if not ok:
        res.count('consequence_scripts_rejected_by_reference')
        return budget_left
    exprs = list(ns.nodeio.parse_smtlib(text))
    ns.smtlib.collect_information(exprs)
    muts = [('Constants', ns.mutators_core.Constants()),
            ('ReplaceByVariable', ns.mutators_core.ReplaceByVariable()),
            ('ReplaceByChild', ns.mutators_core.ReplaceByChild()),
            ('IntroduceFreshVariable',
             ns.mutators_smtlib.IntroduceFreshVariable())]
    positions = [p for p, _ in script.positions()
                 if script.nested()[p[0]][0] == 'assert']
    r.shuffle(positions)
    for path_ in positions[:6]:
        node = node_at(exprs, path_)
        for mname, m in muts:
            try:
                if not m.filter(node):
                    continue
                if ns.smtlib.get_sort(node) is None:
                    # ReplaceByChild also tries children when both sorts are
                    # unknown; no 'same sort' is claimed then
                    res.count('consequence_unknown_sort_not_judged')
                    continue
                props = list(m.mutations(node)) if hasattr(
                    m, 'mutations') else list(m.global_mutations(node, exprs))
            except Exception:  # noqa
                continue
            for simp in props[:2]:
                if budget_left <= 0:
                    return budget_left
                budget_left -= 1
                cand = ns.mutator_utils.apply_simp(exprs, simp)
                ctext = ns.nodeio.write_smtlib_to_str(cand)
                with open(path, 'w') as f:
                    f.write(ctext)
                ok, msg = cvc5_accepts(path)
                res.count('evaluations')
                res.count('consequence_candidates_sort_checked')
                if ok:
                    continue
                if 'not declared' in msg or 'previously declared' in msg \
                        or 'already' in msg:
                    res.count('consequence_scope_errors_ignored')
                    continue
                res.violation(
                    f'ill-sorted-replacement:{mname}',
                    f'{mname} replaces {str(node)[:80]} by a term "of the '
                    f'same sort", but the reference sort checker rejects '
                    f'the result: {msg.strip()[:160]}', {
                        'script': text,
                        'candidate': ctext,
                        'term': str(node)[:300],
                        'mutator': mname,
                        'reference_message': msg
                    })
    return budget_left


def shard(args):
    from vlib import dd
    ns = dd.load()
    res = common.ShardResult()
    r = common.rng('c16', args['shard'])
    if args.get('kind') == 'consequence':
        scratch = common.scratch_dir('c16')
        left = args['budget']
        try:
            i = 0
            while left > 0 and i < 400:
                i += 1
                script = gen_smt.random_script(
                    r, theories=['core'] + r.sample(
                        ['ints', 'reals', 'bv', 'fp', 'strings', 'arrays',
                         'dt', 'uf', 'let'], r.randint(1, 4)),
                    nasserts=r.randint(1, 3), depth=r.randint(1, 3))
                left = consequence(ns, res, r, script, f'{args["shard"]}:{i}',
                                   scratch, left)
        finally:
            import shutil
            shutil.rmtree(scratch, ignore_errors=True)
        return res.to_dict()
    for i in range(args['n']):
        # scripts are analysed one after the other in this process: with
        # 'shared' names a symbol changes its role from script to script,
        # so an answer that depends on an earlier input shows
        style = r.choice(['plain', 'shared', 'shared'])
        script = gen_smt.random_script(r, max_bv=r.choice([4, 8, 8, 16]),
                                       names=style)
        npos = check_script(ns, res, script, f'{args["shard"]}:{i}')
        res.count('scripts')
        res.count(f'scripts_names_{style}')
        if npos >= 3:
            res.add_distinct(common.digest(script.text()))
        if i < 1:
            res.sample({'script': script.text()[:1500], 'positions': npos})
    return res.to_dict()


def run(ctx):
    n = 200 if ctx.tier == 'quick' else 100000
    shards = [{'shard': i, 'n': n} for i in range(common.NCPU)]
    shards += [{'shard': 100 + i, 'kind': 'consequence',
                'budget': 60 if ctx.tier == 'quick' else 1500}
               for i in range(common.NCPU)]
    results = common.run_shards('checks.c16', shards, timeout=3000)
    common.merge_shards(ctx, results)
    # real-run part: the sorts answered during a real run must not depend
    # on inputs the process analysed earlier
    from checks import c17_real
    c17_real.run(ctx, 'sorts')
    ctx.rule = (
        'gen_smt scripts over random theory subsets (Core, Ints, Reals, BV, '
        'FP, Strings/Seq, Arrays, datatypes, UF, let, quantifiers, '
        'define-fun, annotations), every symbol bound once; evaluations = '
        'term positions at which get_sort and get_bv_width were compared '
        'with the generator typing; distinct non-trivial = distinct scripts '
        'with >= 3 term positions; consequence clause: results of '
        'Constants / ReplaceByVariable / ReplaceByChild / '
        'IntroduceFreshVariable proposals are sort-checked by cvc5; scripts '
        'are analysed in sequence in one process, two thirds with one name '
        'space for all roles (a constructor name of one script is a '
        'function or constant in the next); real-run part: at every point '
        'where the main thread starts generating simplifications the sort '
        'answered for every subterm is compared with the answer after a '
        'fresh collect_information on the same input')
    ctx.assumptions = [
        'gen_smt typing is the ground truth (scripts validated against z3 '
        'and cvc5 in the self-test)',
        'only term positions are compared (not heads, sorts, binders, '
        'indices, attributes)',
        'exceptions raised by get_sort/get_bv_width are counted, not judged '
        '(C04 owns failures)'
    ]
    if ctx.counters.get('sort_right', 0) == 0 or ctx.counters.get(
            'width_right', 0) == 0:
        ctx.inconclusive_because('no position with an inferred sort/width')


def replay(data):
    from vlib import dd
    ns = dd.load()
    for c in data['cases']:
        w = c['witness']
        exprs = list(ns.nodeio.parse_smtlib(w['script']))
        ns.smtlib.collect_information(exprs)
        t = refmodel.build(ns.Node, w['term'])
        print(w['term'], 'get_sort:', ns.smtlib.get_sort(t), 'width:',
              ns.smtlib.get_bv_width(t), 'true:', w['true_sort'])
    return 1
