"""C16 - inferred sorts and bit-widths are never wrong.

Ground truth: the typing gen_smt attaches to every term it builds.  For every
term position of a generated well-sorted script (every symbol bound once) the
real smtlib.get_sort / get_bv_width must answer 'unknown' or the true sort /
width.
"""
from vlib import common, gen_smt, refreader, refmodel

LEVEL = 'exploration'


def node_at(exprs, path):
    n = exprs[path[0]]
    for i in path[1:]:
        n = n.data[i]
    return n


def check_script(ns, res, script, origin):
    text = script.text()
    exprs = list(ns.nodeio.parse_smtlib(text))
    nested = script.nested()
    if refmodel.to_nested_list(exprs) != nested:
        raise AssertionError('harness: parse of rendered script differs')
    try:
        ns.smtlib.collect_information(exprs)
    except Exception as e:  # noqa
        res.count('evaluations')
        res.violation(
            f'table-construction-raises:{type(e).__name__}',
            f'collect_information raised {type(e).__name__}: {e} on a '
            f'well-sorted script', {'script': text, 'origin': origin})
        return 0
    dtnames = set()
    unames = set()
    for c in nested:
        if c[0] == 'declare-datatype':
            dtnames.add(c[1])
        elif c[0] == 'declare-datatypes':
            dtnames.update(x[0] for x in c[1])
        elif c[0] == 'declare-sort':
            unames.add(c[1])
    npos = 0
    wrong = []  # (path, key, what, witness)
    res_violation = res.violation

    def defer(key, what, witness, _path=None):
        wrong.append((_cur[0], key, what, witness))

    _cur = [None]
    res = _Deferred(res, defer)
    for path, term in script.positions():
        _cur[0] = path
        npos += 1
        node = node_at(exprs, path)
        op = term.op or ('leaf' if term.leaf is not None else '?')
        true_sort = term.sort
        res.count('evaluations')
        res.add_set('ops_exercised', f'{op}:{true_sort[0]}')
        # ---- get_sort
        try:
            got = ns.smtlib.get_sort(node)
            exc = None
        except Exception as e:  # noqa
            got = None
            exc = type(e).__name__
        if exc:
            res.count('get_sort_exceptions')
            res.add_set('exceptions', f'get_sort:{op}:{exc}')
        elif got is None:
            res.count('sort_unknown')
        else:
            gn = refmodel.to_nested(got)
            gs = gen_smt.sort_from_nested(gn, dtnames, unames)
            if gs == true_sort:
                res.count('sort_right')
                res.add_set('ops_sort_right', op)
            else:
                res.violation(
                    f'sort:{op}',
                    f'get_sort({refreader.render([term.nested()]).strip()}) '
                    f'= {gn!r} but the term has sort '
                    f'{gen_smt.sort_nested(true_sort, False)!r}', {
                        'term': term.nested(),
                        'true_sort': gen_smt.sort_nested(true_sort, False),
                        'inferred': gn,
                        'script': text,
                        'origin': origin
                    })
        # ---- get_bv_width
        try:
            w = ns.smtlib.get_bv_width(node)
            exc = None
        except Exception as e:  # noqa
            w = None
            exc = type(e).__name__
        if exc:
            res.count('get_bv_width_exceptions')
            res.add_set('exceptions', f'get_bv_width:{op}:{exc}')
        elif w == -1:
            res.count('width_unknown')
        else:
            if true_sort[0] == 'BV' and w == true_sort[1]:
                res.count('width_right')
            else:
                res.violation(
                    f'width:{op}',
                    f'get_bv_width({refreader.render([term.nested()]).strip()}'
                    f') = {w} but the term has sort '
                    f'{gen_smt.sort_nested(true_sort, False)!r}', {
                        'term': term.nested(),
                        'true_sort': gen_smt.sort_nested(true_sort, False),
                        'inferred_width': w,
                        'script': text,
                        'origin': origin
                    })
    res = res.inner
    # report only innermost wrong positions: a wrong answer above another
    # wrong answer is (most likely) a consequence of it
    wrong_paths = {w[0] for w in wrong}
    for path, key, what, witness in wrong:
        if any(len(q) > len(path) and q[:len(path)] == path
               for q in wrong_paths):
            res.count('cascaded_wrong_answers')
            continue
        res.violation(key, what, witness)
    return npos


def check_commented(ns, res, r, script, origin, nvariants=3):
    """The same question with a comment between the operator and the first
    argument of one term (the reader keeps comments as children): the term
    and every term above it still have the sorts they have."""
    import copy
    nested = script.nested()
    pos = {path: term for path, term in script.positions()}
    compound = [p for p, t in pos.items() if t.leaf is None]
    if not compound:
        return
    dtnames, unames = set(), set()
    for c in nested:
        if c[0] == 'declare-datatype':
            dtnames.add(c[1])
        elif c[0] == 'declare-datatypes':
            dtnames.update(x[0] for x in c[1])
        elif c[0] == 'declare-sort':
            unames.add(c[1])
    for _ in range(nvariants):
        p = r.choice(compound)
        n2 = copy.deepcopy(nested)
        lst = gen_smt.get_path(n2, p)
        if not isinstance(lst, list) or len(lst) < 2:
            continue
        lst.insert(1, r.choice(['; c\n', ';\n', '; (not a term) "x\n']))
        text = refreader.render(n2)
        exprs = list(ns.nodeio.parse_smtlib(text))
        if refmodel.to_nested_list(exprs) != n2:
            res.count('commented_variants_read_differently')
            continue
        try:
            ns.smtlib.collect_information(exprs)
        except Exception as e:  # noqa
            res.count('commented_variants_collect_raises')
            res.add_set('exceptions', f'collect:commented:{type(e).__name__}')
            continue
        res.count('commented_variants')
        for k in range(len(p), 1, -1):
            q = p[:k]
            term = pos.get(q)
            if term is None:
                continue
            node = node_at(exprs, q)
            res.count('evaluations')
            try:
                got = ns.smtlib.get_sort(node)
            except Exception as e:  # noqa
                res.add_set('exceptions',
                            f'get_sort:commented:{type(e).__name__}')
                continue
            if got is None:
                res.count('sort_unknown')
                continue
            gn = refmodel.to_nested(got)
            gs = gen_smt.sort_from_nested(gn, dtnames, unames)
            if gs == term.sort:
                res.count('sort_right_with_comment')
                continue
            op = term.op or '?'
            res.violation(
                f'sort:comment-between-children:{op}',
                f'with a comment after the operator of '
                f'{refreader.render([pos[p].nested()]).strip()[:80]}, '
                f'get_sort of the {op} term at {q} = {gn!r} but the term '
                f'has sort {gen_smt.sort_nested(term.sort, False)!r}', {
                    'script': text, 'origin': origin, 'path': list(q),
                    'commented_path': list(p), 'inferred': gn,
                    'true_sort': gen_smt.sort_nested(term.sort, False)})
            break


class _Deferred:
    """Proxy for ShardResult that defers violations."""

    def __init__(self, inner, defer):
        self.inner = inner
        self._defer = defer

    def violation(self, key, what, witness):
        self._defer(key, what, witness)

    def __getattr__(self, name):
        return getattr(self.inner, name)


def cvc5_accepts(path):
    import subprocess
    p = subprocess.run(['cvc5', '--parse-only', '--lang=smt2', path],
                       capture_output=True, text=True, timeout=120)
    return p.returncode == 0, (p.stdout + p.stderr)[:400]


def consequence(ns, res, r, script, origin, scratch, budget_left):
    """The consequence clause: replacing a term by a default constant, an
    existing variable, a child or a fresh variable 'of the same sort' gives a
    well-sorted script.  Reference: cvc5's own sort checker."""
    import os
    nested = [c for c in script.nested() if c[0] not in (
        'check-sat', 'check-sat-assuming', 'get-model', 'exit')]
    text = refreader.render(nested)
    path = os.path.join(scratch, 'c.smt2')
    with open(path, 'w') as f:
        f.write(text)
    ok, _ = cvc5_accepts(path)
    if not ok:
        res.count('consequence_scripts_rejected_by_reference')
        return budget_left
    exprs = list(ns.nodeio.parse_smtlib(text))
    ns.smtlib.collect_information(exprs)
    muts = [('Constants', ns.mutators_core.Constants()),
            ('ReplaceByVariable', ns.mutators_core.ReplaceByVariable()),
            ('ReplaceByChild', ns.mutators_core.ReplaceByChild()),
            ('IntroduceFreshVariable',
             ns.mutators_smtlib.IntroduceFreshVariable())]
    positions = [p for p, _ in script.positions()
                 if script.nested()[p[0]][0] == 'assert']
    r.shuffle(positions)
    ddmin_pattern = r.random() < 0.5
    prefiltered = {}
    if ddmin_pattern:
        # the calling pattern of strategy ddmin at granularity > 1: one
        # mutator instance filters all nodes of a subset first and is asked
        # for the mutations of each of them afterwards
        res.count('consequence_scripts_in_ddmin_calling_pattern')
        for mname, m in muts:
            for path_ in positions[:6]:
                try:
                    prefiltered[(mname, path_)] = bool(
                        m.filter(node_at(exprs, path_)))
                except Exception:  # noqa
                    prefiltered[(mname, path_)] = False
    for path_ in positions[:6]:
        node = node_at(exprs, path_)
        for mname, m in muts:
            try:
                if ddmin_pattern:
                    if not prefiltered.get((mname, path_)):
                        continue
                elif not m.filter(node):
                    continue
                if ns.smtlib.get_sort(node) is None:
                    # ReplaceByChild also tries children when both sorts are
                    # unknown; no 'same sort' is claimed then
                    res.count('consequence_unknown_sort_not_judged')
                    continue
                props = list(m.mutations(node)) if hasattr(
                    m, 'mutations') else list(m.global_mutations(node, exprs))
            except Exception:  # noqa
                continue
            for simp in props[:2]:
                if budget_left <= 0:
                    return budget_left
                budget_left -= 1
                cand = ns.mutator_utils.apply_simp(exprs, simp)
                ctext = ns.nodeio.write_smtlib_to_str(cand)
                with open(path, 'w') as f:
                    f.write(ctext)
                ok, msg = cvc5_accepts(path)
                res.count('evaluations')
                res.count('consequence_candidates_sort_checked')
                if ok:
                    continue
                if 'not declared' in msg or 'previously declared' in msg \
                        or 'already' in msg:
                    res.count('consequence_scope_errors_ignored')
                    continue
                res.violation(
                    f'ill-sorted-replacement:{mname}',
                    f'{mname} replaces {str(node)[:80]} by a term "of the '
                    f'same sort", but the reference sort checker rejects '
                    f'the result: {msg.strip()[:160]}', {
                        'script': text,
                        'candidate': ctext,
                        'term': str(node)[:300],
                        'mutator': mname,
                        'reference_message': msg
                    })
    # Every numeral of the script, in the order in which the hierarchical
    # strategy asks (breadth first, caches kept): a numeral that is an index
    # of an identifier or of a sort is not a term; whatever is inferred for
    # an equal numeral elsewhere must not lead to its replacement
    ns.smtlib.collect_information(exprs)
    cm = muts[0][1]
    for node in ns.nodes.bfs(exprs):
        if not node.is_leaf() or not node.data.isdigit():
            continue
        try:
            if not cm.filter(node):
                continue
            props = list(cm.mutations(node))
        except Exception:  # noqa
            continue
        for simp in props[:2]:
            if budget_left <= 0:
                return budget_left
            budget_left -= 1
            cand = ns.mutator_utils.apply_simp(exprs, simp)
            ctext = ns.nodeio.write_smtlib_to_str(cand)
            with open(path, 'w') as f:
                f.write(ctext)
            ok, msg = cvc5_accepts(path)
            res.count('evaluations')
            res.count('consequence_candidates_sort_checked')
            res.count('consequence_numeral_replacements_checked')
            if ok or 'not declared' in msg or 'previously declared' in msg \
                    or 'already' in msg:
                continue
            res.violation(
                'ill-sorted-replacement:Constants:numeral',
                f'Constants replaces the numeral {node.data} by a constant '
                f'"of the same sort", but the reference sort checker '
                f'rejects the result: {msg.strip()[:160]}', {
                    'script': text, 'candidate': ctext,
                    'term': str(node), 'mutator': 'Constants',
                    'reference_message': msg})
            return budget_left
    return budget_left


def numeral_script(r):
    """Int literals that coincide with widths and indices, the Int use
    first (so that it is asked about first in breadth-first order)."""
    w = r.choice([4, 8, 16])
    h = r.randint(1, w - 1)
    lo = r.randint(0, h)
    k = r.randint(2, 2 ** w - 1)
    lines = ['(set-logic ALL)', '(declare-const i Int)',
             f'(assert (> (+ i {w}) (* {h} {lo})))',
             f'(declare-const x (_ BitVec {w}))',
             f'(assert (= x (_ bv{k} {w})))',
             f'(assert (= ((_ extract {h} {lo}) x) '
             f'((_ extract {h} {lo}) (bvnot x))))',
             f'(assert (= ((_ zero_extend {h}) x) ((_ sign_extend {h}) x)))']
    if r.random() < 0.5:
        lines.insert(2, lines.pop(3))  # the declaration first after all
    return '\n'.join(lines) + '\n'


class _TextScript:
    """A script given as text (no typed positions)."""

    def __init__(self, text):
        self._nested = refreader.read(text)

    def nested(self):
        return self._nested

    def positions(self):
        return []




# ---- deep terms -----------------------------------------------------------
# Sort inference is recursive; on a legal but deeply nested term it runs into
# the interpreter's recursion limit.  Whatever the code does about that, the
# answers must stay 'unknown or right' - for the deep term and for every
# symbol whose sort is derived from it (let bindings in particular).
DEEP_SORTS = {
    'Bool': ('Bool', ['true', 'false', '(= p p)'], 'p'),
    'Int': ('Int', ['7', '(+ i 1)', '(* 2 i)'], 'i'),
    'Real': ('Real', ['1.5', '(/ r 2.0)'], 'r'),
    'BV4': (['_', 'BitVec', '4'], ['#b0101', '(bvnot v4)', '#x3'], 'v4'),
    'BV8': (['_', 'BitVec', '8'], ['#x0f', '(bvneg v8)', '(bvadd v8 v8)'],
            'v8'),
    'String': ('String', ['"ab"', '(str.++ s s)'], 's'),
}
DEEP_WIDTH = {'BV4': 4, 'BV8': 8}


def deep_term(r, sort, n):
    """(text, description) of a term of ``sort`` nested n levels."""
    v = DEEP_SORTS[sort][2]
    shapes = {
        'Bool': [('(not ', ')'), ('(and p ', ')'), ('(=> ', ' p)'),
                 ('(ite p ', ' p)')],
        'Int': [('(- ', ')'), ('(+ ', ' 1)'), ('(* 2 ', ')'),
                ('(ite p ', ' i)')],
        'Real': [('(- ', ')'), ('(+ ', ' 1.0)'), ('(ite p r ', ')')],
        'BV4': [('(bvnot ', ')'), ('(bvadd ', ' v4)'), ('(bvor v4 ', ')')],
        'BV8': [('(bvnot ', ')'), ('(bvneg ', ')'), ('(bvxor ', ' v8)'),
                ('(ite p ', ' v8)')],
        'String': [('(str.++ ', ' s)'), ('(str.++ s ', ')'),
                   ('(ite p ', ' s)')],
    }[sort]
    pre, post = r.choice(shapes)
    return pre * n + v + post * n, f'{pre.strip()}^{n}'


def deep_script(r):
    """A let with 2-3 bindings of different sorts, one of them deep; returns
    (text, {name: sort key})."""
    sorts = r.sample(list(DEEP_SORTS), r.randint(2, 3))
    n = r.choice([150, 300, 500, 700, 1000, 1500, 3000])
    deep_at = r.randrange(len(sorts))
    binds = []
    truth = {}
    descr = []
    for k, s in enumerate(sorts):
        name = f'b{k}'
        if k == deep_at:
            t, d = deep_term(r, s, n)
            descr.append(f'{name}:{s}:{d}')
        else:
            t = r.choice(DEEP_SORTS[s][1])
            descr.append(f'{name}:{s}')
        binds.append((name, t))
        truth[name] = s
    body = ' '.join(f'(= {nm} {DEEP_SORTS[truth[nm]][2]})' for nm, _ in binds)
    nested_lets = r.random() < 0.3
    if nested_lets:
        term = f'(and {body} p)'
        for nm, t in reversed(binds):
            term = f'(let (({nm} {t})) {term})'
    else:
        term = '(let (' + ' '.join(f'({nm} {t})' for nm, t in binds) + \
            f') (and {body} p))'
    decls = ''.join(
        f'(declare-const {DEEP_SORTS[s][2]} '
        f'{refreader.render([DEEP_SORTS[s][0]]).strip()})\n'
        for s in DEEP_SORTS)
    text = f'(set-logic ALL)\n{decls}(assert {term})\n(check-sat)\n'
    return text, truth, ' '.join(descr) + (' nested' if nested_lets else '')


def check_deep(ns, res, r, origin):
    text, truth, descr = deep_script(r)
    judge_deep(ns, res, text, truth, descr, origin)


def judge_deep(ns, res, text, truth, descr, origin):
    exprs = list(ns.nodeio.parse_smtlib(text))
    res.count('deep_scripts')
    try:
        ns.smtlib.collect_information(exprs)
    except Exception as e:  # noqa
        res.count('evaluations')
        res.violation(
            f'table-construction-raises:{type(e).__name__}',
            f'collect_information raised {type(e).__name__} on a well-sorted '
            f'script with a deeply nested term ({descr})',
            {'deep': descr, 'origin': origin, 'script': text,
             'truth': truth})
        return
    # the let-bound symbols, and the binding terms themselves (found without
    # recursion)
    targets = [(nm, ns.Node(nm), truth[nm]) for nm in truth]
    stack = list(exprs)
    while stack:
        x = stack.pop()
        if x.is_leaf():
            continue
        if len(x.data) == 2 and x.data[0].is_leaf() and \
                x.data[0].data in truth and not x.data[1].is_leaf():
            targets.append((f'term of {x.data[0].data}', x.data[1],
                            truth[x.data[0].data]))
        stack.extend(x.data)
    for what, node, skey in targets:
        res.count('evaluations')
        res.count('deep_positions')
        want = DEEP_SORTS[skey][0]
        try:
            got = ns.smtlib.get_sort(node)
            if got is None:
                res.count('sort_unknown')
            elif refmodel.to_nested(got) == want:
                res.count('sort_right')
            else:
                res.violation(
                    'sort:let-bound-symbol' if ' ' not in what
                    else 'sort:deep-term',
                    f'get_sort({what}) = {refmodel.to_nested(got)!r} but its '
                    f'sort is {want!r} ({descr})',
                    {'deep': descr, 'what': what, 'origin': origin,
                     'script': text, 'truth': truth})
        except Exception as e:  # noqa
            res.count('get_sort_exceptions')
            res.add_set('exceptions', f'get_sort:deep:{type(e).__name__}')
        try:
            w = ns.smtlib.get_bv_width(node)
            if w == -1:
                res.count('width_unknown')
            elif w == DEEP_WIDTH.get(skey):
                res.count('width_right')
            else:
                res.violation(
                    'width:let-bound-symbol' if ' ' not in what
                    else 'width:deep-term',
                    f'get_bv_width({what}) = {w} but its sort is {want!r} '
                    f'({descr})',
                    {'deep': descr, 'what': what, 'origin': origin,
                     'script': text, 'truth': truth})
        except Exception as e:  # noqa
            res.count('get_bv_width_exceptions')
            res.add_set('exceptions', f'get_bv_width:deep:{type(e).__name__}')


def shard(args):
    from vlib import dd
    ns = dd.load()
    res = common.ShardResult()
    r = common.rng('c16', args['shard'])
    if args.get('kind') == 'consequence':
        scratch = common.scratch_dir('c16')
        left = args['budget']
        try:
            i = 0
            while left > 0 and i < 400:
                i += 1
                if i % 4 == 0:
                    left = consequence(ns, res, r,
                                       _TextScript(numeral_script(r)),
                                       f'{args["shard"]}:{i}:numerals',
                                       scratch, left)
                    res.count('consequence_numeral_scripts')
                    continue
                script = gen_smt.random_script(
                    r, theories=['core'] + r.sample(
                        ['ints', 'reals', 'bv', 'fp', 'strings', 'arrays',
                         'dt', 'uf', 'let'], r.randint(1, 4)),
                    nasserts=r.randint(1, 3), depth=r.randint(1, 3))
                left = consequence(ns, res, r, script, f'{args["shard"]}:{i}',
                                   scratch, left)
        finally:
            import shutil
            shutil.rmtree(scratch, ignore_errors=True)
        return res.to_dict()
    if args.get('kind') == 'deep':
        for i in range(args['n']):
            check_deep(ns, res, r, f'{args["shard"]}:{i}')
        return res.to_dict()
    for i in range(args['n']):
        # scripts are analysed one after the other in this process: with
        # 'shared' names a symbol changes its role from script to script,
        # so an answer that depends on an earlier input shows
        style = r.choice(['plain', 'shared', 'shared'])
        script = gen_smt.random_script(r, max_bv=r.choice([4, 8, 8, 16]),
                                       names=style)
        npos = check_script(ns, res, script, f'{args["shard"]}:{i}')
        if i % 2 == 0:
            check_commented(ns, res, r, script, f'{args["shard"]}:{i}')
        res.count('scripts')
        res.count(f'scripts_names_{style}')
        if npos >= 3:
            res.add_distinct(common.digest(script.text()))
        if i < 1:
            res.sample({'script': script.text()[:1500], 'positions': npos})
    return res.to_dict()


def run(ctx):
    n = 200 if ctx.tier == 'quick' else 100000
    shards = [{'shard': i, 'n': n} for i in range(common.NCPU)]
    shards += [{'shard': 100 + i, 'kind': 'consequence',
                'budget': 60 if ctx.tier == 'quick' else 1500}
               for i in range(common.NCPU)]
    shards += [{'shard': 200 + i, 'kind': 'deep',
                'n': 40 if ctx.tier == 'quick' else 2000} for i in range(4)]
    results = common.run_shards('checks.c16', shards, timeout=3000)
    common.merge_shards(ctx, results)
    if ctx.counters.get('commented_variants', 0) == 0:
        ctx.inconclusive_because('no variant with a comment inside a term')
    # real-run part: the sorts answered during a real run must not depend
    # on inputs the process analysed earlier
    from checks import c17_real
    c17_real.run(ctx, 'sorts')
    ctx.rule = (
        'gen_smt scripts over random theory subsets (Core, Ints, Reals, BV, '
        'FP, Strings/Seq, Arrays, datatypes, UF, let, quantifiers, '
        'define-fun, annotations), every symbol bound once; evaluations = '
        'term positions at which get_sort and get_bv_width were compared '
        'with the generator typing; distinct non-trivial = distinct scripts '
        'with >= 3 term positions; consequence clause: results of '
        'Constants / ReplaceByVariable / ReplaceByChild / '
        'IntroduceFreshVariable proposals are sort-checked by cvc5; scripts '
        'are analysed in sequence in one process (plus lets with 2-3 '
        'bindings of different sorts, one of them nested 150-3000 levels '
        'deep, so that the recursive inference meets the recursion limit), '
        'two thirds with one name '
        'space for all roles (a constructor name of one script is a '
        'function or constant in the next); real-run part: at every point '
        'where the main thread starts generating simplifications the sort '
        'answered for every subterm is compared with the answer after a '
        'fresh collect_information on the same input')
    ctx.assumptions = [
        'gen_smt typing is the ground truth (scripts validated against z3 '
        'and cvc5 in the self-test)',
        'only term positions are compared (not heads, sorts, binders, '
        'indices, attributes)',
        'exceptions raised by get_sort/get_bv_width are counted, not judged '
        '(C04 owns failures)'
    ]
    if ctx.counters.get('sort_right', 0) == 0 or ctx.counters.get(
            'width_right', 0) == 0:
        ctx.inconclusive_because('no position with an inferred sort/width')
    if ctx.counters.get('deep_positions', 0) == 0:
        ctx.inconclusive_because('no deeply nested term was analysed')


def replay(data):
    from vlib import dd
    ns = dd.load()
    for c in data['cases']:
        w = c['witness']
        if 'truth' in w:
            res = common.ShardResult()
            judge_deep(ns, res, w['script'], w['truth'], w['deep'], 'replay')
            for v in res.violations:
                print(v['key'], v['what'][:300])
            if not res.violations:
                return 0
            continue
        exprs = list(ns.nodeio.parse_smtlib(w['script']))
        ns.smtlib.collect_information(exprs)
        t = refmodel.build(ns.Node, w['term'])
        print(w['term'], 'get_sort:', ns.smtlib.get_sort(t), 'width:',
              ns.smtlib.get_bv_width(t), 'true:', w['true_sort'])
    return 1
