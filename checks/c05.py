"""C05 - accepted inputs form a chain; stale parallel results are never
adopted.

Offline history checker over the events of real runs (plane B launcher +
command-side log): every write W_i must be preceded by an accepted
derivation base=W_{i-1} -> cand=W_i recorded at the worker boundary, the
command must really have been run on W_i with golden-matching behaviour, and
the file left at exit must be W_last.  Runs use -j 2..16, predicates with
many acceptable candidates, command delays and LINE-level delay injection.
"""
import os
import shutil

from vlib import common, realrun, refreader, workload

LEVEL = 'exploration'

MONITORS = ['write', 'derive', 'check', 'gen', 'redup']


def check_history(res, run, desc):
    """The chain rule over one run's history.  Returns a summary dict."""
    ev = run.events
    witness = dict(desc)
    witness['opts'] = run.opts
    witness['stderr_tail'] = run.stderr[-500:]
    starts = [e for e in ev if e['ev'] == 'reduce_start']
    writes = sorted([e for e in ev if e['ev'] == 'write'],
                    key=lambda e: e['seq'])
    wstarts = {e['seq']: e for e in ev if e['ev'] == 'write_start'}
    derives = [e for e in ev if e['ev'] == 'derive']
    checks = [e for e in ev if e['ev'] == 'check']
    summary = {'writes': len(writes), 'derives': len(derives),
               'checks': len(checks)}
    if not starts:
        return summary
    golden = None
    if run.cmdlog:
        g = run.cmdlog[0]
        golden = (g['exit'], g['out'], g['err'])
    cmd_ok = {}
    for x in run.cmdlog[1:]:
        if (x['exit'], x['out'], x['err']) == golden and not x.get('fault'):
            cmd_ok.setdefault(x['td'], x['t'])
    prev = starts[0]['base']
    w0 = prev
    chain = [prev]
    for w in writes:
        ws = wstarts.get(w['seq'], w)
        cands = [d for d in derives
                 if d['success'] and d['cand'] == w['ld']
                 and d['t'] <= ws['t']]
        good = [d for d in cands if d['base'] == prev]
        stale_cache = [d for d in good if d.get('used_base') not in (
            None, d['base'])]
        if stale_cache and len(stale_cache) == len(good):
            witness_s = dict(witness)
            witness_s['write_seq'] = w['seq']
            res.violation(
                'stale-result-adopted',
                f'write #{w["seq"]}: the worker derived the adopted candidate '
                f'from {stale_cache[0]["used_base"]} (its cached copy of an '
                f'older input), not from the current input {prev}',
                witness_s)
        witness_w = dict(witness)
        witness_w['write_seq'] = w['seq']
        witness_w['chain_digests'] = chain[-5:] + [w['ld']]
        if not good:
            if cands:
                res.violation(
                    'stale-result-adopted',
                    f'write #{w["seq"]} adopts a candidate derived from '
                    f'{cands[0]["base"]}, but the current input was {prev}',
                    witness_w)
            else:
                res.violation(
                    'write-without-accepted-derivation',
                    f'write #{w["seq"]} ({w["ld"]}) has no accepted '
                    f'derivation event preceding it', witness_w)
        # the command was really run on this candidate and matched
        tds = {c['td'] for c in checks
               if c['ld'] == w['ld'] and c['verdict'] and c['t'] <= ws['t']}
        if not any(td in cmd_ok and cmd_ok[td] <= ws['t'] for td in tds):
            res.violation(
                'write-without-command-acceptance',
                f'write #{w["seq"]}: the command-side log has no golden-'
                f'matching run on this candidate before the write',
                witness_w)
        if not w.get('as_expected', True):
            res.violation('write-content-differs',
                          f'write #{w["seq"]}: the bytes on disk after the '
                          f'write are not the rendering of the adopted input',
                          witness_w)
        if not w.get('thread_is_main', True):
            res.count('writes_from_other_thread')
        if w['ld'] == prev:
            res.count('stuttering_writes')
        prev = w['ld']
        chain.append(prev)
    # with only erasing mutators enabled every written content must be a
    # token subsequence of its predecessor (nothing can come back)
    if desc.get('erase_only'):
        prev_toks = refreader.strip_comments(refreader.lex(desc['input'],
                                                           tolerant=True))
        for w in writes:
            if w.get('text') is None:
                break
            toks = refreader.strip_comments(refreader.lex(w['text'],
                                                          tolerant=True))
            it = iter(prev_toks)
            if not all(t in it for t in toks):
                witness_w = dict(witness)
                witness_w['write_seq'] = w['seq']
                witness_w['content'] = w['text'][:1500]
                res.violation(
                    'stale-result-adopted',
                    f'write #{w["seq"]} (erase-only run) contains tokens '
                    f'that its predecessor had already lost', witness_w)
                break
            prev_toks = toks
            res.count('erase_only_writes_checked')
    # file left at exit
    if writes and run.rc == 0:
        if run.out_bytes is None:
            res.violation('final-file-missing',
                          'writes happened but no output file at exit',
                          witness)
        else:
            td = refreader.token_digest(run.out_bytes.decode('utf-8',
                                                             'replace'))
            if td != writes[-1]['td']:
                res.violation('final-file-not-last-write',
                              'the file left at exit is not the last element '
                              'of the chain', witness)
        finals = [e for e in ev if e['ev'] == 'final']
        if finals and finals[-1]['ld'] != prev:
            res.violation('final-result-not-last-write',
                          'reduce() returned an input that is not the last '
                          'written one', witness)
    ok_checks = sum(1 for c in checks if c['verdict'])
    summary['discarded_successes'] = max(0, ok_checks - len(writes))
    # interleaving signature: order of (task, verdict) between writes
    sig = []
    for e in sorted(derives + writes, key=lambda e: e['t']):
        if e['ev'] == 'write':
            sig.append('W')
        else:
            sig.append(f'{e["task"]}{"+" if e["success"] else "-"}')
    summary['signature'] = common.digest(' '.join(sig))
    summary['multi_success_batches'] = count_multi_success(derives, writes)
    summary['w0'] = w0
    return summary


def count_multi_success(derives, writes):
    """Batches (between two writes) that contain >= 2 successful derives."""
    n = 0
    cuts = [w['t'] for w in writes]
    evs = sorted(derives, key=lambda e: e['t'])
    buckets = {}
    for d in evs:
        k = sum(1 for c in cuts if c <= d['t'])
        buckets.setdefault(k, 0)
        if d['success']:
            buckets[k] += 1
    return sum(1 for v in buckets.values() if v >= 2)


def make_case(r, jobs=None):
    script = workload.small_script(r, r.choice(['small', 'medium', 'medium']))
    text = workload.render_with_noise(r, script.nested(), comments=False)
    # many acceptable candidates => several simultaneous successes
    fam = r.choice([['all'], ['hash'], ['count'], ['ntok'], ['has'],
                    ['scoped'], ['nothas']])
    rules, pred = workload.pick_spec(r, text, families=fam, nclasses=2)
    strat = r.choice(['ddmin', 'hierarchical', 'hybrid'])
    j = jobs or r.choice([2, 4, 8, 16])
    opts = ['--strategy', strat, '-j', str(j), '--timeout', '20']
    if r.random() < 0.3:
        # stray atoms and literals between the commands (top-level leaves):
        # erasing one is an accepted step that removes no s-expression
        lines = text.splitlines()
        for k in range(r.randint(1, 4)):
            lines.insert(r.randint(0, len(lines)),
                         r.choice([f'stray{k}', f'"top {k}"', f'|q {k}|',
                                   f':kw{k}', str(40 + k)]))
        text = '\n'.join(lines) + '\n'
    erase_only = r.random() < 0.35
    if erase_only:
        opts += ['--disable-all', '--erase-node']
    delay = (r.randint(1, 1000), r.choice([300, 2000, 8000])) \
        if r.random() < 0.7 else None
    inj = {'seed': r.randint(0, 10**6), 'prob': r.choice([0.01, 0.05, 0.2]),
           'max_ms': r.choice([1, 2, 5])} if r.random() < 0.7 else None
    same_size = False
    if r.random() < 0.2:
        # Only size-preserving steps (a one-character leaf for another): the
        # successive inputs differ, but nothing about their size does - not
        # the token count, not the length of their serialised form.
        same_size = True
        erase_only = False
        n = r.randint(6, 12)
        names = r.sample('abcdefghjkmnpqrstuvw', r.randint(2, 4))
        lines = ['(set-logic QF_LIA)'] + [
            f'(declare-const {v} Int)' for v in names]
        for _ in range(n):
            lines.append(f'(assert ({r.choice(["<", ">", "<=", ">="])} '
                         f'{r.choice(names)} {r.randint(2, 9)}))')
        text = '\n'.join(lines + ['(check-sat)']) + '\n'
        pred = r.choice(['all', f'ntok>={len(workload.tokens_of(text))}',
                         'has:check-sat'])
        rules = realrun.simple_spec(pred)
        strat = 'ddmin'
        j = jobs or r.choice([2, 2, 3, 4])
        opts = ['--strategy', strat, '-j', str(j), '--timeout', '20',
                '--disable-all'] + r.choice([
                    ['--constants'], ['--replace-by-variable'],
                    ['--constants', '--replace-by-variable'],
                    ['--constants', '--replace-by-variable',
                     '--arith-negate-relation']])
    desc = {'input': text, 'rules': rules, 'predicate': pred,
            'strategy': strat, 'jobs': j, 'delay': delay, 'inject': inj,
            'erase_only': erase_only, 'same_size': same_size}
    return text, rules, opts, delay, inj, desc


def run_case(res, wd, case):
    text, rules, opts, delay, inj, desc = case
    cfg = {'monitors': MONITORS, 'write_text': True}
    if inj:
        cfg['delay'] = inj
    run = realrun.run_ddsmt(wd, text, rules, opts=opts, delay=delay,
                            launcher=cfg)
    res.count('evaluations')
    if run.timed_out:
        res.count('runs_watchdog')
        return run, None
    if run.uncaught_traceback or run.rc != 0:
        res.count('runs_failed')
        res.add_set('failed_runs', run.stderr[-300:])
        return run, None
    s = check_history(res, run, desc)
    res.count('writes_checked', s.get('writes', 0))
    res.count('derive_events', s.get('derives', 0))
    res.count('discarded_successes', s.get('discarded_successes', 0))
    res.count('batches_with_2_or_more_successes',
              s.get('multi_success_batches', 0))
    if s.get('writes', 0) >= 1:
        res.add_distinct(s['signature'])
    res.add_set('configs', f'{desc["strategy"]}/j{desc["jobs"]}')
    if desc.get('same_size'):
        res.count('same_size_runs')
        res.count('same_size_writes', s.get('writes', 0))
    return run, s


def write_fault_case(res, wd, case, r):
    """A rewrite of the output file fails (the file system refuses the
    temporary file): ddSMT may stop, but it must not carry on from an input
    that is not on disk - the next content would not derive from its
    predecessor, and the file left at exit would not be the last adopted
    input."""
    import hashlib
    text, rules, opts, delay, inj, desc = case
    k = r.choice([1, 1, 2, 3])
    cfg = {'monitors': MONITORS, 'write_text': True,
           'fail_write': {'write': k}}
    run = realrun.run_ddsmt(wd, text, rules, opts=opts, delay=delay,
                            launcher=cfg)
    res.count('evaluations')
    res.count('write_fault_runs')
    if run.timed_out:
        res.count('runs_watchdog')
        return
    if not any(e['ev'] == 'injected_write_fault' for e in run.events):
        res.count('write_fault_runs_without_injection')
        return
    res.count('write_faults_injected')
    witness = dict(desc)
    witness.update({'failed_write': k, 'exit_status': run.rc,
                    'stderr_tail': run.stderr[-500:]})
    if run.rc == 0 and not run.uncaught_traceback:
        res.count('runs_that_went_on_after_a_failed_write')
        # the history is judged as always: the failed write must show
        check_history(res, run, desc)
        return
    ws = sorted((e for e in run.events if e['ev'] == 'write'),
                key=lambda e: e['seq'])
    prev = [e for e in ws if e['seq'] == k - 1]
    on_disk = None if run.out_bytes is None else hashlib.blake2b(
        run.out_bytes, digest_size=8).hexdigest()
    want = prev[0]['bd'] if prev else None
    if on_disk != want:
        res.violation(
            'file-after-failed-write-is-not-the-last-written-input',
            f'write #{k} failed and ddSMT stopped, but the output file is '
            f'not what write #{k - 1} left', witness)


def shard(args):
    res = common.ShardResult()
    r = common.rng('c05', args['shard'])
    base = common.scratch_dir('c05')
    try:
        for i in range(args['n']):
            case = make_case(r, jobs=1 if i % 7 == 6 else None)
            wd = os.path.join(base, f'run{i}')
            run, s = run_case(res, wd, case)
            res.count('runs')
            if i < 1 and s:
                res.sample({
                    'input': case[0][:600],
                    'rules': case[1],
                    'opts': case[2],
                    'history': {k: v for k, v in s.items()},
                })
            shutil.rmtree(wd, ignore_errors=True)
            if i % 4 == 1:
                wd = os.path.join(base, f'wf{i}')
                write_fault_case(res, wd, make_case(r), r)
                shutil.rmtree(wd, ignore_errors=True)
    finally:
        shutil.rmtree(base, ignore_errors=True)
    return res.to_dict()


def run(ctx):
    n = 8 if ctx.tier == 'quick' else 180
    shards = [{'shard': i, 'n': n} for i in range(common.NCPU)]
    results = common.run_shards('checks.c05', shards, timeout=3400,
                                max_parallel=8)
    common.merge_shards(ctx, results)
    ctx.rule = (
        'real runs under the launcher: gen_smt script x predicate with many '
        'acceptable candidates (all/hash/count/ntok/has/scoped) x strategy x '
        '-j{2,4,8,16} (every 7th: -j1) x command delays x LINE-level delay '
        'injection in main thread, task-handler thread and workers; '
        'evaluations = runs; distinct non-trivial = distinct interleaving '
        'signatures (time order of (task, verdict) and writes) of runs with '
        '>= 1 write')
    ctx.assumptions = [
        'CLOCK_MONOTONIC is shared by all processes of a run',
        'derive events are recorded at the worker boundary (after the real '
        'function returned, before the result is sent back)'
    ]
    if ctx.counters.get('discarded_successes', 0) == 0:
        ctx.inconclusive_because(
            'no discarded concurrent success was observed: the dangerous '
            'interleavings were not produced')
    if ctx.counters.get('writes_checked', 0) < 20:
        ctx.inconclusive_because('too few writes checked')
    if ctx.counters.get('write_faults_injected', 0) == 0:
        ctx.inconclusive_because('no failing rewrite was injected')
    if ctx.counters.get('runs_failed', 0) > ctx.counters.get('runs', 1) // 4:
        ctx.inconclusive_because('too many runs failed for other reasons')
    ctx.judge_watchdog('runs')


def replay(data):
    res = common.ShardResult()
    base = common.scratch_dir('c05r')
    bad = 0
    try:
        for k, c in enumerate(data['cases']):
            w = c['witness']
            # interleavings are not reproducible exactly: repeat the case
            for rep in range(20):
                case = (w['input'], w['rules'], w['opts'], w.get('delay'),
                        w.get('inject'), w)
                run_case(res, os.path.join(base, f'r{k}_{rep}'), case)
                shutil.rmtree(os.path.join(base, f'r{k}_{rep}'),
                              ignore_errors=True)
    finally:
        shutil.rmtree(base, ignore_errors=True)
    for v in res.violations:
        print(v['key'], v['what'][:400])
    return 1 if res.violations else 0
