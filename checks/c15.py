"""C15 - every proposed simplification is applicable and lexically closed.

For generated well-sorted scripts over all theories (and partially reduced
forms of them) every proposal of every mutator at every node is applied with
the real apply_simp and rendered with the real writer; the oracle demands

* id keys are ids of the input, structural keys occur in the input;
* apply_simp and the renderer do not raise, the result consists of Nodes;
* the rendered text parses back (ddSMT parser and reference reader) to the
  tree kept in memory;
* introduced declarations declare symbols not yet declared and are placed
  before their first use.
"""
import os
import signal

from vlib import budget, common, gen_smt, refmodel, refreader, shapes, \
    workload

LEVEL = 'exploration'

MAX_PER_NODE = 12


def tricky_prefix(r):
    """Declarations whose names look like the ones mutators invent."""
    out = []
    if r.random() < 0.5:
        out.append(['declare-const', 'sv', 'String'])
        out.append(['declare-const', 'sv_prefix', 'String'])
        out.append(['assert', ['str.contains', 'sv', '"a"']])
        out.append(['assert', ['str.contains', 'sv', '"b c"']])
        out.append(
            ['assert', ['str.contains', ['str.++', 'sv', '"x"'], '"x"']])
    if r.random() < 0.4:
        # only one of the two names a mutator would invent is taken
        out.append(['declare-const', 'tv', 'String'])
        out.append(['declare-const', r.choice(['tv_suffix', 'tv_prefix']),
                    'String'])
        out.append(['assert', ['str.contains', 'tv', '"q"']])
    if r.random() < 0.5:
        out.append(['declare-const', 'bw', ['_', 'BitVec', '8']])
        out.append(['declare-const', '_bw', ['_', 'BitVec', '8']])
        out.append(['declare-const', '|q w|', ['_', 'BitVec', '4']])
        out.append(['assert', ['=', 'bw', '_bw']])
        out.append(['assert', ['=', '|q w|', '#x3']])
    if r.random() < 0.5:
        out.append(['declare-const', '|s v|', 'String'])
        out.append([
            'assert',
            ['=', '|s v|',
             r.choice(['"a""b"', '"a\\u{3bb}b c"', '"\\x41""q"', '"(;|)"',
                       '"""b"', '"say ""hi"""', '""""', '"a"""'])]
        ])
        out.append(['assert', ['str.contains', '|s v|', '"a""b"']])
    if r.random() < 0.3:
        # previous bit-width reductions (what BVMergeReducedBW looks for)
        out.append(['declare-const', '__rw', ['_', 'BitVec', '2']])
        out.append(['define-fun', '_rw', [], ['_', 'BitVec', '5'],
                    [['_', 'zero_extend', '3'], '__rw']])
        out.append(['define-fun', 'rw', [], ['_', 'BitVec', '8'],
                    [['_', 'zero_extend', '3'], '_rw']])
        out.append(['assert', ['=', 'rw', '#x03']])
    if r.random() < 0.5:
        # a later renaming (SimplifySymbolNames shortens _cw0 to _cw) makes
        # the name taken that a mutator would invent for cw
        out.append(['declare-const', 'cw', ['_', 'BitVec', '8']])
        out.append(['declare-const', r.choice(['_cw0', '_cwx', '__cw']),
                    ['_', 'BitVec', '8']])
        out.append(['declare-const', 'dv', 'String'])
        out.append(['declare-const', r.choice(['dv_prefixx', 'dv_suffix0']),
                    'String'])
        out.append(['assert', ['str.contains', 'dv', '"d"']])
    if r.random() < 0.4:
        # several generations of invented names are taken already (ddSMT run
        # on its own output, or a third containment on one variable)
        out.append(['declare-const', 'gv', 'String'])
        gens = r.randint(1, 3)
        for g in range(gens):
            for kind in r.sample(['prefix', 'suffix'], r.randint(1, 2)):
                out.append(['declare-const', f'gv_{kind}' + '_' * g,
                            'String'])
        for lit in r.sample(['"a"', '"b"', '"c"'], r.randint(1, 3)):
            out.append(['assert', ['str.contains', 'gv', lit]])
    if r.random() < 0.3:
        out.append(['declare-const', 'falsy', 'Bool'])
        out.append(['assert', ['or', 'falsy', ['not', 'falsy']]])
    return out


def takes_inventable_name(before, after):
    """Does the renaming make a name declared that a mutator would invent
    for another declared symbol (_x, __x, x_prefix, x_suffix, |_x|)?"""
    for b in after - before:
        core = b[1:-1] if len(b) > 2 and b[0] == '|' == b[-1] else b
        for a in after:
            ac = a[1:-1] if len(a) > 2 and a[0] == '|' == a[-1] else a
            if a != b and core in ('_' + ac, '__' + ac, ac + '_prefix',
                                   ac + '_suffix'):
                return True
    return False


def declared_symbols(nested):
    """Symbols declared by the commands of a (possibly ill-formed) script."""
    out = set()

    def add(x):
        if isinstance(x, str):
            out.add(x)

    for c in nested:
        if not isinstance(c, list) or len(c) < 2:
            continue
        h = c[0]
        # only well-formed declarations declare something: the partially
        # reduced forms contain remains such as (declare-const x)
        arity = {'declare-const': 3, 'declare-fun': 4, 'define-fun': 5,
                 'declare-sort': 3, 'define-sort': 4, 'define-fun-rec': 5}
        if not isinstance(h, str):
            continue
        if h in arity:
            if len(c) == arity[h]:
                add(c[1])
        elif h == 'declare-datatype' and len(c) == 3:
            add(c[1])
            for cd in c[2] if isinstance(c[2], list) else []:
                if isinstance(cd, list) and cd:
                    add(cd[0])
                    for s in cd[1:]:
                        if isinstance(s, list) and s:
                            add(s[0])
        elif h == 'declare-datatypes' and len(c) == 3:
            for sd in c[1] if isinstance(c[1], list) else []:
                if isinstance(sd, list) and sd:
                    add(sd[0])
            for body in c[2] if isinstance(c[2], list) else []:
                for cd in body if isinstance(body, list) else []:
                    if isinstance(cd, list) and cd:
                        add(cd[0])
                        for s in cd[1:]:
                            if isinstance(s, list) and s:
                                add(s[0])
    return out


def all_ids(exprs):
    ids = {}
    stack = list(exprs)
    while stack:
        n = stack.pop()
        ids[n.id] = n
        if not isinstance(n.data, str):
            stack.extend(n.data)
    return ids


def is_wellformed_nodes(ns, result):
    """The result is a list of Nodes whose data are str or tuples of
    Nodes."""
    if not isinstance(result, list):
        return False
    stack = list(result)
    while stack:
        n = stack.pop()
        if not isinstance(n, ns.Node):
            return False
        if isinstance(n.data, str):
            continue
        if not isinstance(n.data, tuple):
            return False
        stack.extend(n.data)
    return True


def occurs_structurally(exprs, key):
    stack = list(exprs)
    while stack:
        n = stack.pop()
        if n == key:
            return True
        if not isinstance(n.data, str):
            stack.extend(n.data)
    return False


def check_proposal(ns, res, exprs, nested, declared, ids, mname, node, simp,
                   origin):
    res.count('evaluations')
    res.count(f'proposals_{mname}')
    witness = {
        'mutator': mname,
        'node': str(node)[:300],
        'input': refreader.render(nested),
        'origin': origin
    }
    # R1 keys
    for k in simp.substs:
        if isinstance(k, int):
            if k not in ids:
                res.violation(f'{mname}:foreign-id-key',
                              f'{mname} proposes a substitution for node id '
                              f'{k}, which is not in the input', witness)
                return None
        else:
            if not occurs_structurally(exprs, k):
                res.violation(f'{mname}:absent-structural-key',
                              f'{mname} proposes to replace {k}, which does '
                              f'not occur in the input', witness)
                return None
    witness['substs'] = {str(k)[:100]: (None if v is None else str(v)[:200])
                         for k, v in simp.substs.items()}
    witness['fresh_vars'] = [str(v) for v in simp.fresh_vars]
    # R2 apply + render
    try:
        with budget.StepBudget(_codes(ns), 2_000_000):
            result = ns.mutator_utils.apply_simp(exprs, simp)
    except budget.BudgetExceeded:
        res.violation(f'{mname}:apply-step-budget',
                      f'applying a proposal of {mname} exceeded the step '
                      f'budget', witness)
        return None
    except Exception as e:  # noqa
        res.violation(f'{mname}:apply-raises-{type(e).__name__}',
                      f'apply_simp raised {type(e).__name__}: {e}', witness)
        return None
    if not is_wellformed_nodes(ns, result):
        res.violation(f'{mname}:non-node-in-result',
                      f'the result of applying a proposal of {mname} '
                      f'contains an object that is not a Node', witness)
        return None
    try:
        text = ns.nodeio.write_smtlib_to_str(result)
    except Exception as e:  # noqa
        res.violation(f'{mname}:render-raises-{type(e).__name__}',
                      f'rendering raised {type(e).__name__}: {e}', witness)
        return None
    tree = refreader.norm_tree(refmodel.to_nested_list(result))
    witness['result_text'] = text[:3000]
    # R3 lexical closure
    try:
        back = refreader.norm_tree(refreader.read(text))
    except refreader.LexError as e:
        back = f'<{e}>'
    if back != tree:
        bad = first_bad_leaf(tree)
        res.violation(
            f'{mname}:not-lexically-closed',
            f'the tree in memory differs from what a reader parses from the '
            f'written text (offending leaf: {bad!r})', witness)
        return None
    try:
        dd_back = refreader.norm_tree(
            refmodel.to_nested_list(list(ns.nodeio.parse_smtlib(text))))
    except Exception as e:  # noqa
        dd_back = f'<{type(e).__name__}>'
    if dd_back != tree:
        res.violation(f'{mname}:ddsmt-reparse-differs',
                      'ddSMT\'s own parser reads the written text back '
                      'differently', witness)
        return None
    # R4 declarations
    if simp.fresh_vars:
        res.count('fresh_declarations_checked', len(simp.fresh_vars))
        rn = refmodel.to_nested_list(result)
        for v in simp.fresh_vars:
            vn = refmodel.to_nested(v)
            sym = vn[1] if isinstance(vn, list) and len(vn) > 1 else None
            if not isinstance(sym, str):
                res.violation(f'{mname}:fresh-name-not-a-symbol',
                              f'introduced declaration {vn} does not declare '
                              f'a single symbol', witness)
                return None
            if sym in declared:
                res.violation(
                    f'{mname}:redeclares-existing-symbol',
                    f'introduced declaration of {sym!r}, which the input '
                    f'already declares', witness)
                return None
            pos = None
            for i, c in enumerate(rn):
                if c == vn:
                    pos = i
                    break
            first_use = None
            for i, c in enumerate(rn):
                if i == pos:
                    continue
                if sym in refreader.flatten([c]):
                    first_use = i
                    break
            if pos is None or (first_use is not None and first_use < pos):
                res.violation(
                    f'{mname}:declaration-after-use',
                    f'declaration of {sym!r} is at command {pos}, first use '
                    f'at {first_use}', witness)
                return None
    return result


def first_bad_leaf(tree):
    stack = list(tree)
    while stack:
        x = stack.pop()
        if isinstance(x, list):
            stack.extend(x)
        else:
            try:
                toks = refreader.lex(x)
            except refreader.LexError:
                return x
            if len(toks) != 1 or toks[0] != refreader.norm_comment(x):
                return x
    return None


_c = None


def _codes(ns):
    global _c
    if _c is None:
        _c = (budget.code_objects(ns.nodes.substitute) +
              budget.code_objects(ns.mutator_utils.apply_simp))
    return _c


def mutator_instances(ns):
    from vlib import dd
    out = []
    for cname, (mod, cls, opt, group) in dd.all_mutator_classes(ns).items():
        out.append((cname, cls()))
    return out


class _Stalled(BaseException):
    pass


ROUND_WATCHDOG = 60
_STATE = {'proposing': None}


def _on_alarm(signum, frame):
    raise _Stalled()


def explore(ns, res, r, nested, origin, rounds):
    """A mutator that never delivers its proposals (termination is C03's)
    must not stall this check: a wall-clock watchdog per round makes the
    check inconclusive and names the mutator."""
    signal.signal(signal.SIGALRM, _on_alarm)
    try:
        return _explore(ns, res, r, nested, origin, rounds)
    except _Stalled:
        res.count('rounds_stalled')
        res.add_set('stalled_while_proposing', str(_STATE['proposing']))
        res.inconclusive.append(
            f'a round of proposals did not finish within {ROUND_WATCHDOG} s '
            f'(last mutator asked: {_STATE["proposing"]}); hanging mutators '
            f'are judged by C03')
    finally:
        signal.setitimer(signal.ITIMER_REAL, 0)


def _explore(ns, res, r, nested, origin, rounds):
    if res.counters.get('rounds_stalled'):
        # one stall is enough to make the check inconclusive
        return
    text = refreader.render(nested)
    exprs = list(ns.nodeio.parse_smtlib(text))
    muts = mutator_instances(ns)
    if r.random() < 0.4:
        # symbols that look like ddSMT's own fresh variables and collide
        # with the ids of nodes of this very input (as happens when ddSMT is
        # run on its own output, where ids start at 1 again)
        inner = [n for n in ns.nodes.dfs(exprs) if not n.is_leaf()]
        decls = [ns.Node('declare-const', f'x{n.id}__fresh', 'Bool')
                 for n in r.sample(inner, min(4, len(inner)))]
        exprs = ns.smtlib.introduce_variables(exprs, decls)
        res.count('inputs_with_colliding_fresh_names')
    for rnd in range(rounds + 1):
        nested_now = refmodel.to_nested_list(exprs)
        try:
            ns.smtlib.collect_information(exprs)
        except Exception as e:  # noqa
            res.add_set('exceptions',
                        f'collect_information:{type(e).__name__}')
            return
        declared = declared_symbols(nested_now)
        ids = all_ids(exprs)
        results = []
        renamed = []
        taking = []
        all_nodes = list(ns.nodes.bfs(exprs))
        if r.random() < 0.5:
            # calling pattern of strategy hierarchical: node by node
            order = [(node, mname, m, False) for node in all_nodes
                     for mname, m in muts]
        else:
            # calling pattern of strategy ddmin: one mutator instance filters
            # all nodes first and is then asked for the mutations of each
            res.count('rounds_in_ddmin_calling_pattern')
            order = []
            for mname, m in muts:
                for node in all_nodes:
                    try:
                        if not hasattr(m, 'filter') or m.filter(node):
                            order.append((node, mname, m, True))
                    except Exception as e:  # noqa
                        res.count('exceptions_while_proposing')
                        res.add_set('exceptions',
                                    f'{mname}:{type(e).__name__}')
        signal.setitimer(signal.ITIMER_REAL, ROUND_WATCHDOG)
        for node, mname, m, filtered in order:
            if True:
                _STATE['proposing'] = mname
                try:
                    if not filtered and hasattr(m, 'filter') and \
                            not m.filter(node):
                        continue
                    props = []
                    if hasattr(m, 'mutations'):
                        for x in m.mutations(node):
                            props.append(x)
                            if len(props) >= MAX_PER_NODE:
                                break
                    if hasattr(m, 'global_mutations'):
                        k = 0
                        for x in m.global_mutations(node, exprs):
                            props.append(x)
                            k += 1
                            if k >= MAX_PER_NODE:
                                break
                except Exception as e:  # noqa
                    res.count('exceptions_while_proposing')
                    res.add_set('exceptions', f'{mname}:{type(e).__name__}')
                    continue
                for simp in props:
                    if not isinstance(simp, ns.mutator_utils.Simplification):
                        res.violation(
                            f'{mname}:not-a-simplification',
                            f'{mname} yielded a {type(simp).__name__}', {
                                'input': text
                            })
                        continue
                    out = check_proposal(ns, res, exprs, nested_now,
                                         declared, ids, mname, node, simp,
                                         f'{origin}:r{rnd}')
                    if out is not None and out is not exprs:
                        results.append(out)
                        if mname in ('SimplifySymbolNames',
                                     'SimplifyQuotedSymbols'):
                            renamed.append(out)
                            if takes_inventable_name(
                                    declared, declared_symbols(
                                        refmodel.to_nested_list(out))):
                                taking.append(out)
        if not results or rnd == rounds:
            break
        # a partially reduced form: continue from a random accepted result
        # (the mutator instances stay the same, as in a real run); renamings
        # are preferred half of the time, they change which names are taken
        pick = renamed if renamed and r.random() < 0.5 else results
        if taking and r.random() < 0.7:
            # ... above all those after which a name that a mutator may
            # already have invented for some declaration is taken
            pick = taking
            res.count('partially_reduced_inputs_taking_an_inventable_name')
        exprs = ns.nodes.reduplicate(r.choice(pick))
        res.count('partially_reduced_inputs')
        if pick is renamed:
            res.count('partially_reduced_inputs_after_renaming')


def shard(args):
    from vlib import dd
    ns = dd.load()
    res = common.ShardResult()
    r = common.rng('c15', args['shard'])
    for i in range(args['n']):
        pool = ['ints', 'reals', 'bv', 'fp', 'strings', 'arrays', 'dt', 'uf',
                'let', 'quant', 'defs', 'annot']
        g = gen_smt.Gen(r, ['core'] + r.sample(pool, r.randint(2, len(pool))),
                        quoted=r.random() < 0.3)
        script = g.script(nasserts=r.randint(1, 3), depth=r.randint(1, 3),
                          logic=r.choice(workload.LOGICS))
        extra = shapes.inject_shapes(g, r, depth=1, extra=True)
        cmds = list(script.cmds)
        known = {id(c) for c in cmds}
        new_decls = [c for c in g.commands if id(c) not in known]
        fa = next((k for k, c in enumerate(cmds)
                   if isinstance(c, gen_smt.Cmd) and c.items[0] == 'assert'),
                  len(cmds))
        cmds = cmds[:fa] + new_decls + [
            gen_smt.Cmd(['assert', t]) for t in extra] + cmds[fa:]
        nested = gen_smt.Script(cmds).nested()
        if r.random() < 0.15:
            nested.insert(len(nested) - 1, [
                'define-funs-rec',
                [['rf1', [['ra', 'Int']], 'Int'], ['rf2', [['rb', 'Int']],
                                                  'Int']],
                [['rf2', ['+', 'ra', '1']], ['rf1', ['-', 'rb', '1']]]
            ])
        if r.random() < 0.3 or os.environ.get('VERIF_UNCOMMON') == '1':
            # less common commands and term forms (push/pop, define-sort,
            # recursive definitions, parametric datatypes, match, patterns,
            # named terms, sets, tuples, ...)
            for group in r.sample(workload.UNCOMMON, r.randint(1, 2)):
                at = r.randint(1, len(nested))
                nested[at:at] = refreader.read('\n'.join(group))
            res.count('scripts_with_less_common_commands')
        if r.random() < 0.2:
            # comments inside commands and terms (the reader keeps them as
            # children of the s-expression they stand in)
            lists = []
            stack = [c for c in nested if isinstance(c, list)]
            while stack:
                x = stack.pop()
                if len(x) >= 2:
                    lists.append(x)
                stack.extend(y for y in x if isinstance(y, list))
            for x in r.sample(lists, min(len(lists), r.randint(1, 3))):
                x.insert(r.randint(1, len(x)),
                         r.choice(['; c\n', ';\n', '; (a b) "c |d\n']))
            res.count('scripts_with_comments_inside_terms')
        pre = tricky_prefix(r)
        k = next((j for j, c in enumerate(nested)
                  if c[0] not in ('set-logic', 'set-info', 'set-option')),
                 len(nested))
        nested = nested[:k] + pre + nested[k:]
        if r.random() < 0.2:
            # a top-level command with many children
            nested.insert(len(nested) - 1, ['get-value'] +
                          [['+', str(j), '1'] for j in range(9)])
        if r.random() < 0.4:
            # header-like commands late in the script, as incremental
            # benchmarks have them ((set-info :status ..) before each
            # check-sat): declarations belong after the *leading* ones
            for _ in range(r.randint(1, 2)):
                nested.insert(r.randint(max(1, len(nested) - 3),
                                        len(nested)),
                              r.choice([['set-info', ':status', 'sat'],
                                        ['set-logic', 'ALL'],
                                        ['set-info', ':source', '|x y|']]))
            res.count('scripts_with_late_header_commands')
        explore(ns, res, r, nested, f'{args["shard"]}:{i}', args['rounds'])
        res.count('scripts')
        res.add_distinct(common.digest(refreader.render(nested)))
        if i < 1:
            res.sample({'script': refreader.render(nested)[:1500]})
    return res.to_dict()


def run(ctx):
    n = 5 if ctx.tier == 'quick' else 50
    shards = [{'shard': i, 'n': n, 'rounds': 2 if ctx.tier == 'quick' else 4}
              for i in range(common.NCPU)]
    results = common.run_shards('checks.c15', shards, timeout=3400)
    common.merge_shards(ctx, results)
    from checks import c15_real
    c15_real.run(ctx)
    from vlib import dd
    ns = dd.load()
    silent = [c for c in dd.all_mutator_classes(ns)
              if ctx.counters.get(f'proposals_{c}', 0) == 0]
    ctx.extra['mutators_without_proposals'] = silent
    ctx.rule = (
        'gen_smt scripts over all theories (quoted symbols, string literals '
        'with doubled quotes/escapes/blanks, names that look like invented '
        'ones, repeated str.contains, a top-level command with 9 children) '
        'and up to N partially reduced forms each; every proposal (at most '
        f'{MAX_PER_NODE} per mutator, kind and node) of all 53 mutator '
        'classes at every BFS node; evaluations = proposals judged; distinct '
        'non-trivial = distinct start scripts; plus real hierarchical runs '
        'in which every candidate passes through the same closure / '
        're-declaration oracle')
    ctx.assumptions = [
        'exceptions while *proposing* are informational (C04 allows a '
        'mutator to fail)', 'vlib.refreader is the token oracle'
    ]
    if len(silent) > 3:
        ctx.inconclusive_because(
            f'{len(silent)} mutator classes never proposed anything: '
            f'{silent}')


def replay(data):
    from vlib import dd
    ns = dd.load()
    res = common.ShardResult()
    r = common.rng('c15-replay')
    for c in data['cases']:
        w = c['witness']
        if 'input' in w:
            explore(ns, res, r, refreader.read(w['input']), 'replay', 0)
    keys = {v['key'] for v in res.violations}
    for v in res.violations:
        print(v['key'], v['what'][:300])
    return 1 if data['key'] in keys else 0
