"""C01 - the output file reproduces the golden behaviour.

Real runs of the real bin/ddsmt, observed only from outside: afterwards the
command (and the cross-check command) is re-run on the output file and
compared with the golden behaviour by an independent statement of the
documented comparison; the token digest of the output file must be that of a
candidate which the command-side log shows as tested *and* answered with
golden-matching behaviour; the input file must be untouched.
"""
import os
import shutil

from vlib import common, realrun, refreader, workload

LEVEL = 'exploration'


def judge_run(res, r, run, rules, cc_rules, cmp_opts, cc_ignore, desc):
    """Apply the C01 oracle to one finished run."""
    res.count('evaluations')
    witness = dict(desc)
    witness['opts'] = run.opts
    witness['stderr_tail'] = run.stderr[-600:]
    if run.timed_out:
        res.count('runs_watchdog')
        return 'inconclusive'
    if not run.infile_unchanged:
        res.violation('input-file-modified', 'the input file was modified',
                      witness)
    main_spec = os.path.basename(run.specfile)
    # which program answered: the spec the command itself reports (it may
    # carry its spec with it instead of getting it as first argument)
    def spec_of(e):
        if e.get('spec'):
            return os.path.basename(e['spec'])
        a = e.get('argv', [])
        return os.path.basename(a[1]) if len(a) > 1 else None

    main_log = [e for e in run.cmdlog if spec_of(e) == main_spec]
    cc_log = [e for e in run.cmdlog if spec_of(e) == 'spec_cc.txt']
    res.count('tests_observed', len(run.cmdlog))
    if run.out_bytes is None:
        res.count('runs_without_output')
        return 'trivial'
    res.count('runs_with_output')
    if not main_log:
        res.violation('output-without-any-test',
                      'an output file exists but the command was never run',
                      witness)
        return 'violation'
    cmp = workload.parse_comparison(cmp_opts)
    golden = (main_log[0]['exit'], main_log[0]['out'], main_log[0]['err'])
    out_text = run.out_bytes.decode('utf-8', 'replace')
    witness['output'] = out_text[:3000]
    # (a) re-run the command on the output file
    rc, o, e = realrun.run_vcmd(run.cmd, run.specfile, run.outfile)
    if not realrun.matches(golden, (rc, o, e), **cmp):
        res.violation(
            classify(run, 'output-does-not-reproduce-golden'),
            f'the command on the output file gives {(rc, o, e)!r}, golden is '
            f'{golden!r} under {cmp_opts}', witness)
        return 'violation'
    if cc_rules is not None:
        golden_cc = (cc_log[0]['exit'], cc_log[0]['out'],
                     cc_log[0]['err']) if cc_log else None
        if not cc_log:
            res.violation(
                'cross-check-command-never-run',
                'a cross-check command was given but the program that was '
                'run under its name never was that command', witness)
            return 'violation'
        rc2, o2, e2 = realrun.run_vcmd(
            run.cc_cmd, os.path.join(run.workdir, 'spec_cc.txt'),
            run.outfile)
        if golden_cc is None or not realrun.matches(
                golden_cc, (rc2, o2, e2), ignore_out=cc_ignore,
                ignore_err=cc_ignore):
            res.violation(
                classify(run, 'output-does-not-reproduce-golden-cc'),
                f'the cross-check command on the output file gives '
                f'{(rc2, o2, e2)!r}, its golden run {golden_cc!r}', witness)
            return 'violation'
    # (b) the output is a candidate that was tested and accepted
    td = refreader.token_digest(out_text)
    acc_main = {
        x['td']
        for x in main_log[1:]
        if not x.get('fault') and realrun.matches(golden, (x['exit'],
                                                           x['out'],
                                                           x['err']), **cmp)
    }
    if cc_rules is not None and cc_log:
        golden_cc = (cc_log[0]['exit'], cc_log[0]['out'], cc_log[0]['err'])
        acc_cc = {
            x['td']
            for x in cc_log[1:]
            if realrun.matches(golden_cc, (x['exit'], x['out'], x['err']),
                               ignore_out=cc_ignore, ignore_err=cc_ignore)
        }
        acc = acc_main & acc_cc
    else:
        acc = acc_main
    rejected = len(main_log) - 1 - sum(
        1 for x in main_log[1:] if x['td'] in acc_main)
    if td not in acc:
        res.violation(
            classify(run, 'output-not-a-tested-accepted-candidate'),
            f'token digest {td} of the output file is not among the '
            f'{len(acc)} candidates the command accepted', witness)
        return 'violation'
    if acc_main and rejected > 0:
        return 'nontrivial'
    return 'trivial'


def classify(run, base):
    if '--wrap-lines' in run.opts:
        return base + ':wrap-lines'
    if '--pretty-print' in run.opts:
        return base + ':pretty-print'
    return base


def make_case(r, lexical_corner=False):
    script = workload.small_script(r, r.choice(['tiny', 'small', 'small',
                                                'medium']),
                                   quoted=lexical_corner)
    text = workload.render_with_noise(r, script.nested(),
                                      comments=True)
    wide = not lexical_corner and r.random() < 0.1
    if wide:
        # many small commands: ddmin takes its parallel path only while there
        # are more than 2*jobs subsets
        n = r.choice([24, 32, 48])
        lines = [f'(assert (f{i} a{i} (g{i} b{i})))' for i in range(n)]
        for k in range(r.randint(0, 3)):
            lines.insert(r.randint(0, n), f'(declare-const d{k} Int)')
        text = '\n'.join(lines) + '\n(check-sat)\n'
    if lexical_corner:
        # a separately counted slice with lexical corner cases (owned by
        # C07/C08 but they must not break the end-to-end guarantee either)
        text = text.replace('\n', '\r\n', r.randint(0, 3))
        text += r.choice(['', 'trailing-atom', '"top level string"\n',
                          '(push 1)(pop 1)\n'])
    rules, pred = workload.pick_spec(r, text,
                                     nclasses=r.choice([2, 2, 3]))
    unbalanced = lexical_corner and r.random() < 0.5
    if unbalanced:
        # the failure is one of the *shape* of the file (a command cut off at
        # the end, a parenthesis too many): ddSMT reads such a file
        # leniently, but nothing it renders has that shape, so no candidate
        # can be accepted and whatever it leaves in the output file must
        # still behave like the input
        body = text.rstrip()
        if r.random() < 0.5 and body.endswith(')'):
            text = body[:-1] + r.choice(['', '\n'])
        else:
            text = body + r.choice([')', '\n)\n', ' ) '])
        pred = 'balanced !'
        rules = [realrun.rule(pred, 3, '(error "unexpected end of file")\n',
                              ''),
                 realrun.rule('all', 0, '', '')]
    glue = lexical_corner and not unbalanced and r.random() < 0.3
    if glue:
        # two top-level atoms that a reduction step makes neighbours: glued
        # together (in the file the command sees) they would be another
        # token, which this command looks for
        a, b = r.choice([('ke', 'ep'), ('che', 'ck'), ('"a"', '"b"'),
                         ('|x', 'y|')]) if False else r.choice(
                             [('ke', 'ep'), ('che', 'ck'), ('12', '34')])
        lines = text.rstrip('\n').split('\n')
        at = r.randint(0, len(lines))
        lines[at:at] = [a, '(guard)', b]
        text = '\n'.join(lines) + '\n'
        q = realrun.pct
        pred = (f'has:{q(a + b)} has:{q(a)} has:guard & has:{q(b)} & |')
        rules = [realrun.rule(pred, 1, 'bug\n', ''),
                 realrun.rule('all', 0, 'ok\n', '')]
    nontext = None
    if not unbalanced and not glue and r.random() < 0.12:
        # a command whose messages are not text: the two classes differ in
        # one byte that is not valid UTF-8 (same exit status)
        junk = r.sample(['%FF', '%FE', '%80', '%C3%28', '%E9'], 2)
        stream = r.choice(['out', 'err'])
        rules = [f'{pred} => exit=3 {stream}=bad%20state%20{junk[0]}%0A',
                 f'all => exit=3 {stream}=bad%20state%20{junk[1]}%0A']
        nontext = stream
    i, ex, out, err, fault = realrun.eval_spec(rules, text)
    golden = (ex, out, err)
    cmp_opts = workload.comparison_options(r, golden)
    if nontext:
        # the stream that differs is compared as a whole
        cmp_opts = r.choice([[], [], ['--ignore-err'] if nontext == 'out'
                             else ['--ignore-out']])
    strat = r.choice(workload.STRATEGIES)
    j = r.choice([1, 1, 2, 4, 8])
    if wide:
        strat = r.choice(['ddmin', 'hybrid'])
        j = r.choice([2, 3, 4])
    opts = ['--strategy', strat, '-j', str(j), '--timeout', '20']
    opts += workload.format_options(r) + cmp_opts
    cc_rules = None
    cc_ignore = False
    same_basename = False
    if r.random() < 0.3:
        same_basename = r.random() < 0.5
        cc_rules, _ = workload.pick_spec(r, text, families=['has', 'count',
                                                            'ntok', 'all'])
        if r.random() < 0.5:
            opts.append('--ignore-output-cc')
            cc_ignore = True
    delay = (r.randint(1, 1000), r.choice([500, 3000])) \
        if r.random() < 0.4 else None
    desc = {
        'input': text,
        'rules': rules,
        'cc_rules': cc_rules,
        'predicate': pred,
        'strategy': strat,
        'jobs': j,
        'delay': delay,
        'lexical_corner': lexical_corner,
        'unbalanced_input': unbalanced,
        'wide': wide,
        'glue': glue,
        'cc_same_basename': same_basename,
        'non_text_output': nontext,
    }
    return text, rules, cc_rules, cmp_opts, cc_ignore, opts, delay, desc


def run_case(res, r, wd, case):
    text, rules, cc_rules, cmp_opts, cc_ignore, opts, delay, desc = case
    run = realrun.run_ddsmt(wd, text, rules, opts=opts, cc_spec=cc_rules,
                            delay=delay,
                            cc_same_basename=desc.get('cc_same_basename',
                                                      False))
    if desc.get('cc_same_basename'):
        res.count('runs_with_equally_named_executables')
    if desc.get('non_text_output'):
        res.count('runs_with_non_text_command_output')
    if desc.get('unbalanced_input'):
        res.count('runs_on_unbalanced_input')
    if desc.get('wide'):
        res.count('runs_on_wide_inputs')
    if desc.get('glue'):
        res.count('runs_with_atoms_that_would_glue')
    verdict = judge_run(res, r, run, rules, cc_rules, cmp_opts, cc_ignore,
                        desc)
    res.count(f'verdict_{verdict}')
    fmt = [o for o in opts if o in ('--pretty-print', '--wrap-lines')]
    res.add_set(
        'option_tuples',
        f'{desc["strategy"]}/j{desc["jobs"]}/{fmt[0] if fmt else "default"}/'
        f'{"cc" if cc_rules else "nocc"}/'
        f'{" ".join(o for o in cmp_opts if o.startswith("--"))}')
    if verdict == 'nontrivial':
        res.add_distinct(common.digest(text + repr(rules) + repr(opts)))
        if run.out_bytes:
            res.add_set('final_outputs', common.digest(run.out_bytes))
    return run, verdict


def z3_case(res, r, wd):
    """A slice with a real solver as the command: the (exit, stdout, stderr)
    of /usr/bin/z3 on the output must equal those on the input."""
    import subprocess
    z3 = '/usr/bin/z3'
    if not os.path.exists(z3):
        return
    th = ['core'] + r.sample(['ints', 'bv', 'uf', 'let', 'defs', 'dt'],
                             r.randint(1, 3))
    s = workload.small_script(r, r.choice(['tiny', 'small']), theories=th)
    nested = [c for c in s.nested() if c[0] not in ('get-model', 'exit',
                                                    'check-sat-assuming')]
    if ['check-sat'] not in nested:
        nested.append(['check-sat'])
    text = refreader.render(nested)
    os.makedirs(wd, exist_ok=True)
    strat = r.choice(workload.STRATEGIES)
    opts = ['--strategy', strat, '-j', str(r.choice([1, 4])), '--timeout',
            '10'] + workload.format_options(r)
    run = realrun.run_ddsmt(wd, text, ['all => exit=0'], opts=opts,
                            cmd_override=[z3, '-T:5'], timeout=600)
    res.count('evaluations')
    res.count('z3_runs')
    if run.timed_out or run.rc != 0:
        res.count('z3_runs_failed')
        return

    def z3run(path):
        p = subprocess.run([z3, '-T:5', path], capture_output=True,
                           timeout=60)
        # positions in z3's messages depend on the layout of the file, not
        # on its tokens (ddSMT tests the compact rendering, the output file
        # may be pretty-printed or wrapped): normalise them
        import re
        norm = lambda b: re.sub(r'line \d+ column \d+', 'line L column C',  # noqa
                                b.decode())
        return (p.returncode, norm(p.stdout), norm(p.stderr))

    golden = z3run(run.infile)
    if not run.infile_unchanged:
        res.violation('input-file-modified', 'input modified', {})
    if run.out_bytes is None:
        res.count('z3_runs_without_output')
        return
    got = z3run(run.outfile)
    res.count('z3_runs_with_output')
    if got != golden:
        res.violation(
            classify(run, 'output-does-not-reproduce-golden:z3'),
            f'z3 on the output gives {got!r}, on the input {golden!r}', {
                'input': text,
                'output': run.out_bytes.decode('utf-8', 'replace')[:2000],
                'opts': opts
            })
    elif len(run.out_bytes) < len(text.encode()):
        res.add_distinct(common.digest('z3' + text + repr(opts)))


def alias_case(res, r, wd):
    """The input file is left unmodified also when the output path reaches
    it under another spelling: through a symbolic link to its directory, or
    because the named input file is itself a link to the output file."""
    case = make_case(r)
    text, rules, opts = case[0], case[1], case[5]
    os.makedirs(wd, exist_ok=True)
    how = r.choice(['directory-link', 'input-is-link'])
    if how == 'directory-link':
        os.symlink(wd, os.path.join(wd, 'alias'))
        run = realrun.run_ddsmt(wd, text, rules, opts=opts,
                                infile_name='in.smt2',
                                outfile_name='alias/in.smt2', timeout=60)
    else:
        run = realrun.run_ddsmt(wd, text, rules, opts=opts,
                                infile_name='latest.smt2',
                                infile_link_target='bug.smt2',
                                outfile_name='bug.smt2', timeout=60)
    res.count('evaluations')
    res.count('alias_runs')
    if run.timed_out:
        res.count('runs_watchdog')
        return
    if not run.infile_unchanged:
        res.violation(
            f'input-file-modified:output-path-is-an-alias:{how}',
            f'input and output name the same file ({how}); ddSMT exited with '
            f'status {run.rc} and the input file was overwritten',
            {'input': text, 'rules': rules, 'opts': opts, 'how': how,
             'stderr_tail': run.stderr[-400:]})


def shard(args):
    res = common.ShardResult()
    r = common.rng('c01', args['shard'])
    base = common.scratch_dir('c01')
    try:
        if args['shard'] % 4 == 0:
            alias_case(res, r, os.path.join(base, 'alias'))
        for i in range(args['n']):
            case = make_case(r, lexical_corner=(i % 6 == 5))
            wd = os.path.join(base, f'run{i}')
            run, verdict = run_case(res, r, wd, case)
            res.count('runs')
            if case[7]['lexical_corner']:
                res.count('runs_lexical_corner_slice')
            if i < 1:
                res.sample({
                    'input': case[0][:800],
                    'rules': case[1],
                    'opts': case[5],
                    'tests': len(run.cmdlog),
                    'output': (run.out_bytes or b'').decode(
                        'utf-8', 'replace')[:400],
                    'verdict': verdict
                })
            shutil.rmtree(wd, ignore_errors=True)
        for i in range(args.get('z3', 0)):
            wd = os.path.join(base, f'z3_{i}')
            z3_case(res, r, wd)
            shutil.rmtree(wd, ignore_errors=True)
    finally:
        shutil.rmtree(base, ignore_errors=True)
    return res.to_dict()


def run(ctx):
    n = 10 if ctx.tier == 'quick' else 220
    shards = [{'shard': i, 'n': n, 'z3': 1 if ctx.tier == 'quick' else 12}
              for i in range(common.NCPU)]
    results = common.run_shards('checks.c01', shards, timeout=3400)
    common.merge_shards(ctx, results)
    ctx.rule = (
        'real bin/ddsmt runs: gen_smt script (tiny..medium, with comments; '
        'every 6th with lexical corner cases) x scripted-command predicate '
        '(has/count/subseq/hash/ntok/depth/scoped, 2-3 behaviour classes) x '
        'strategy x -j{1,2,4,8} x {default,pretty,wrap} x comparison '
        'options x optional cross-check command (in half of these runs the '
        'two executables have the same file name in different directories) '
        'x optional command delays; '
        'plus a slice with the real /usr/bin/z3 as command (the output must '
        'give the same exit code and streams as the input); '
        'distinct non-trivial = distinct runs with >=1 accepted and >=1 '
        'rejected candidate')
    ctx.assumptions = [
        'vcmd is deterministic and depends on the token sequence only '
        '(self-tested against an independent Python implementation)',
        'a watchdog hit makes a run inconclusive, never a violation'
    ]
    if ctx.counters.get('verdict_nontrivial', 0) < ctx.counters.get(
            'runs', 0) // 10:
        ctx.inconclusive_because('too few non-trivial runs')
    ctx.judge_watchdog('runs')


def replay(data):
    res = common.ShardResult()
    r = common.rng('c01-replay')
    base = common.scratch_dir('c01r')
    try:
        for k, c in enumerate(data['cases']):
            w = c['witness']
            cmp_opts = [o for o in w['opts'] if o in (
                '--ignore-output', '--ignore-out', '--ignore-err')]
            for key in ('--match-out', '--match-err'):
                if key in w['opts']:
                    cmp_opts += [key, w['opts'][w['opts'].index(key) + 1]]
            case = (w['input'], w['rules'], w.get('cc_rules'), cmp_opts,
                    '--ignore-output-cc' in w['opts'], w['opts'],
                    w.get('delay'), w)
            run_case(res, r, os.path.join(base, f'r{k}'), case)
    finally:
        shutil.rmtree(base, ignore_errors=True)
    for v in res.violations:
        print(v['key'], v['what'][:400])
    return 1 if res.violations else 0
