"""C07 - rendering and re-parsing is the identity, in every output mode.

For trees obtained from ddSMT's own parser, each of the four real renderers
(checking file, default, --pretty-print, --wrap-lines) must produce text whose
token sequence (reference lexer) is the flattening of the tree and which both
readers parse back to the same tree; leaves appear verbatim.
"""
import os

from vlib import common, gen_lex, refreader

LEVEL = 'exploration'
RENDERERS = ['checking', 'default', 'pretty', 'wrap']


def render(ns, exprs, mode, tmpfile):
    o = ns.options.args()
    o.pretty_print = mode == 'pretty'
    o.wrap_lines = mode == 'wrap'
    try:
        if mode == 'checking':
            ns.nodeio.write_smtlib_for_checking(tmpfile, exprs)
            with open(tmpfile, newline='') as f:
                return f.read()
        return ns.nodeio.write_smtlib_to_str(exprs)
    finally:
        o.pretty_print = False
        o.wrap_lines = False


def classify(mode, tree, text):
    top_atoms = [
        i for i, x in enumerate(tree)
        if not isinstance(x, list) and not refreader.is_comment(x)
    ]
    adjacent = any(b - a == 1 for a, b in zip(top_atoms, top_atoms[1:]))
    if mode == 'wrap':
        return 'wrap-lines-textwrap'
    if mode == 'checking' and adjacent:
        return 'checking-renderer-merges-toplevel-atoms'
    return f'{mode}:unclassified'


def check_tree(ns, res, exprs, tmpfile, origin):
    tree = refreader.norm_tree(refreader.from_nodes(exprs))
    want = refreader.flatten(tree)
    ok = True
    for mode in RENDERERS:
        res.count('evaluations')
        res.count(f'rendered_{mode}')
        try:
            text = render(ns, exprs, mode, tmpfile)
            problem = None
        except Exception as e:  # noqa
            text = None
            problem = f'renderer raised {type(e).__name__}: {e}'
        if problem is None:
            try:
                toks = [
                    refreader.norm_comment(t) for t in refreader.lex(text)
                ]
            except refreader.LexError as e:
                toks = None
                problem = f'output does not lex: {e}'
        if problem is None and toks != want:
            problem = 'token sequence differs'
        if problem is None:
            back = refreader.norm_tree(refreader.read(text))
            if back != tree:
                problem = 'reference reader parses a different tree'
        if problem is None:
            try:
                dd_back = refreader.norm_tree(
                    refreader.from_nodes(list(ns.nodeio.parse_smtlib(text))))
            except Exception as e:  # noqa
                dd_back = f'{type(e).__name__}'
            if dd_back != tree:
                problem = 'ddSMT parser reads back a different tree'
        if problem is not None:
            ok = False
            res.violation(
                classify(mode, tree, text),
                f'{mode} renderer: {problem}: tree {tree!r} rendered as '
                f'{text!r}', {
                    'mode': mode,
                    'tree': tree,
                    'rendered': text,
                    'problem': problem,
                    'origin': origin
                })
    return ok


def tree_features(res, tree, toks):
    if any(len(t) > 78 for t in toks):
        res.count('trees_with_token_over_78')
    if any('-' in t and not t.startswith(('"', '|', ';')) for t in toks):
        res.count('trees_with_hyphenated_token')
    if any(t[0] in '"|' and any(c in t for c in ' \t\n') for t in toks):
        res.count('trees_with_white_space_in_literal')

    def inner_comment(items, top):
        for x in items:
            if isinstance(x, list):
                if inner_comment(x, False):
                    return True
            elif not top and refreader.is_comment(x):
                return True
        return False

    if inner_comment(tree, True):
        res.count('trees_with_comment_inside_expression')
    if sum(len(t) + 1 for t in toks) > 78:
        res.count('trees_longer_than_one_line')
    for a, b in zip(toks, toks[1:]):
        res.add_set('adjacent_lexeme_kinds', kind(a) + '>' + kind(b))


def kind(t):
    if t in '()':
        return t
    c = t[0]
    if c == '"':
        return 'str'
    if c == '|':
        return 'quo'
    if c == ';':
        return 'com'
    if c == ':':
        return 'kw'
    if c == '#':
        return 'bv'
    if c.isdigit():
        return 'num'
    return 'sym'


def shard(args):
    from vlib import dd
    ns = dd.load()
    res = common.ShardResult()
    r = common.rng('c07', args['shard'])
    scratch = common.scratch_dir('c07')
    tmpfile = os.path.join(scratch, 'out.smt2')
    try:
        for i in range(args['n']):
            items = gen_lex.tree(r,
                                 depth=r.randint(0, 6),
                                 width=r.randint(1, 6),
                                 long_tokens=r.random() < 0.3,
                                 toplevel_atoms=r.random() < 0.5)
            text = gen_lex.serialise(r, items, gen_lex.SEPS_STD)
            if i % 4 == 3 and len(text) > 2:
                # "every parsed input": also what the parser makes of a file
                # that was cut off or lost a character (an unterminated
                # literal, an unclosed or stray parenthesis)
                k = r.randrange(1, len(text))
                if r.random() < 0.6:
                    text = text[:k]
                    res.count('inputs_cut_off')
                else:
                    text = text[:k] + text[k + 1:]
                    res.count('inputs_with_a_character_removed')
                try:
                    refreader.read(text)
                except refreader.LexError:
                    res.count('inputs_ill_formed')
            exprs = list(ns.nodeio.parse_smtlib(text))
            tree = refreader.norm_tree(refreader.from_nodes(exprs))
            toks = refreader.flatten(tree)
            if len(toks) < 2:
                res.count('trivial_trees')
            else:
                res.add_distinct(common.digest(repr(tree)))
            tree_features(res, tree, toks)
            check_tree(ns, res, exprs, tmpfile, f'{args["shard"]}:{i}')
            res.count('trees')
            res.count('tokens', len(toks))
            if i < 1:
                res.sample({'input_text': text, 'tree': tree})
    finally:
        import shutil
        shutil.rmtree(scratch, ignore_errors=True)
    return res.to_dict()


def run(ctx):
    n = 1500 if ctx.tier == 'quick' else 250000
    shards = [{'shard': i, 'n': n} for i in range(common.NCPU)]
    results = common.run_shards('checks.c07', shards, timeout=3000)
    common.merge_shards(ctx, results)
    from checks import c07_real
    c07_real.run(ctx)
    ctx.rule = (
        'gen_lex trees (depth<=6, tokens up to 200 chars, hyphens, literals '
        'with blanks/parens/semicolons/newlines/doubled quotes, comments at '
        'every position, atoms at top level; every 4th text cut off at a '
        'random position or with one character removed, i.e. usually '
        'ill-formed) parsed by ddSMT, each rendered '
        'by the 4 real renderers; evaluations = tree x renderer; distinct '
        'non-trivial = distinct parsed trees with >= 2 tokens.  Part (ii): '
        'real runs (3 strategies, -j 1/2/4, 3 output formats, only the '
        'structure-removing mutators) on texts with characters outside '
        'ASCII in comments, literals and quoted symbols: every file handed '
        'to the command and every state of the output file must lex, have '
        'the leaves of the tree ddSMT holds for it, and be a subsequence of '
        'the leaves of the input')
    ctx.assumptions = [
        'vlib.refreader is the token oracle',
        'comments compared modulo trailing line end; CR never used as '
        'separator here (C08 owns it)'
    ]
    for m in RENDERERS:
        if ctx.counters.get(f'rendered_{m}', 0) == 0:
            ctx.inconclusive_because(f'renderer {m} never evaluated')


def replay(data):
    from vlib import dd
    ns = dd.load()
    res = common.ShardResult()
    scratch = common.scratch_dir('c07r')
    for c in data['cases']:
        w = c['witness']
        if 'rules' in w:
            from checks import c07_real
            from vlib import realrun
            run = realrun.run_ddsmt(
                os.path.join(scratch, 'real'), w['input'], w['rules'],
                opts=w['opts'],
                launcher={'monitors': ['check', 'write'],
                          'check_filetext': True, 'write_text': True})
            c07_real.judge(res, run, w['input'], w)
            continue
        text = refreader.render(w['tree'])
        exprs = list(ns.nodeio.parse_smtlib(text))
        check_tree(ns, res, exprs, os.path.join(scratch, 'o.smt2'), 'replay')
    import shutil
    shutil.rmtree(scratch, ignore_errors=True)
    for v in res.violations:
        print(v['key'], v['what'][:300])
    return 1 if res.violations else 0
