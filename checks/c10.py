"""C10 - runs exceeding the time or memory limit are rejected and never stall
ddSMT.

Fault enumeration on real runs: the scripted command sleeps, spins (1 or 4
threads), allocates, aborts, segfaults or kills itself on chosen candidates.
Monitors: verdicts of faulty candidates (check events joined with the
command-side log), the duration recorded around every checker.execute, the
liveness of every command process after the run, the golden-run match-string
rule.
"""
import os
import shutil

from vlib import common, realrun, workload

LEVEL = 'fault_enumeration'

FAULTS = ['sleep', 'spin1', 'spin4', 'alloc', 'abort', 'segv', 'kill',
          'forksleep', 'burn4']
GRACE = 10.0


def proc_state(pid, marker):
    """State letter of process ``pid`` if it still is the command process of
    this run (pids are recycled quickly while 16 shards spawn commands: the
    command line must mention this run's private spec file)."""
    try:
        with open(f'/proc/{pid}/cmdline', 'rb') as f:
            cmdline = f.read().decode('utf-8', 'replace')
        if marker not in cmdline:
            return None
        with open(f'/proc/{pid}/stat') as f:
            s = f.read()
        return s[s.rindex(')') + 2]
    except (FileNotFoundError, ProcessLookupError, ValueError, OSError):
        return None


def make_case(r):
    n = r.randint(4, 7)
    lines = ['(set-logic QF_LIA)']
    for i in range(n):
        lines.append(f'(declare-const m{i} Int)')
    for i in range(n):
        lines.append(f'(assert (> m{i} {i}))')
    lines.append('(check-sat)')
    text = '\n'.join(lines) + '\n'
    fault = r.choice(FAULTS)
    nf = r.randint(1, 2)
    rules = []
    # faulty candidates: a token present, another absent (so that the fault
    # only shows on some reductions: first / middle / last in the order)
    used = []
    keep = r.randrange(n)
    for _ in range(nf):
        a, b = r.sample(range(n), 2)
        used.append((a, b))
        if fault == 'burn4':
            # uses twice the CPU limit (limit = ceil(1.0 s)) on 4 threads and
            # then answers exactly like the golden run
            a = keep
            rules.append(realrun.rule(f'count:m{a}>=2 count:m{b}>=2 ! &', 1,
                                      'bug\n', 'err\n', fault='burn4:2000'))
        else:
            rules.append(realrun.rule(f'has:m{a} count:m{b}>=2 ! &', 0, '',
                                      '', fault=fault))
    golden_kill = fault in ('sleep', 'spin1') and r.random() < 0.35
    if golden_kill:
        # the behaviour to preserve is "the command dies of SIGKILL" (an
        # out-of-memory kill, a watchdog of its own): a candidate that ddSMT
        # itself kills at the time limit is something else
        rules.append(realrun.rule(f'count:m{keep}>=2', 0, '', '',
                                  fault='kill'))
    else:
        rules.append(realrun.rule(f'count:m{keep}>=2', 1, 'bug\n', 'err\n'))
    rules.append(realrun.rule('all', 0, 'ok\n', ''))
    strat = r.choice(workload.STRATEGIES)
    j = r.choice([1, 1, 4])
    tmo = r.choice([None, 0.2, 0.3, 0.3, 0.5, 0.5])
    if fault == 'burn4':
        tmo = 1.0
    if tmo is None and (fault == 'alloc' or nf > 1):
        # the automatic limit is about 1.5 s per faulty test
        tmo = 0.3
    opts = ['--strategy', strat, '-j', str(j)]
    if tmo is not None:
        opts += ['--timeout', str(tmo)]
    limit = tmo if tmo is not None else 1.6
    memout = None
    if fault == 'alloc' and r.random() < 0.7:
        memout = r.choice([64, 128])
        opts += ['--memout', str(memout)]
    if memout is None and r.random() < 0.5:
        # a generous memory limit that never triggers (the limits are set
        # independently of each other)
        memout = 4096
        opts += ['--memout', '4096']
    if r.random() < 0.3 or golden_kill:
        # exit code only: a timed-out run has no exit code at all
        opts += ['--ignore-output']
    # keep runs short: restrict the mutators
    opts += ['--disable-all', '--erase-node', '--constants',
             '--substitute-children']
    cc_rules = None
    if fault in ('sleep', 'spin1', 'forksleep') and r.random() < 0.5 \
            and not golden_kill:
        # the *cross-check* command is the one that misbehaves; its time
        # limit is explicit or automatic (1.5 x (its golden run + 1 s))
        cc_rules = [x for x in rules if 'fault=' in x] + [
            realrun.rule('all', 0, 'cc ok\n', '')]
        rules = [x for x in rules if 'fault=' not in x]
        if r.random() < 0.5:
            opts += ['--timeout-cc', str(r.choice([0.3, 0.5]))]
    desc = {'input': text, 'rules': rules, 'fault': fault, 'cc_rules': cc_rules,
            'fault_conditions': used, 'strategy': strat, 'jobs': j,
            'timeout': tmo, 'memout': memout}
    desc['cc'] = cc_rules is not None
    desc['golden_fault'] = 'kill' if golden_kill else None
    return text, rules, opts, limit, desc


def judge(res, run, limit, desc, golden_fault=None):
    res.count('evaluations')
    witness = dict(desc)
    witness.update({'opts': run.opts, 'rc': run.rc,
                    'stderr_tail': run.stderr[-800:]})
    execs = [e for e in run.events if e['ev'] == 'exec']
    starts = [e for e in run.events if e['ev'] == 'exec_start']
    checks = [e for e in run.events if e['ev'] == 'check']
    if run.timed_out:
        # The watchdog is no verdict by itself: a run with many candidates
        # that use up their limit is long, and most of its time is spent
        # inside execute().  A stall is an execute() that has been pending
        # for longer than its own limit plus the grace period.
        now = run.watchdog_fired_at
        stalled = None
        for e in sorted(starts, key=lambda e: e['t']):
            ended = any(x['pid'] == e['pid'] and x['tid'] == e['tid']
                        and x['t'] >= e['t'] for x in execs)
            if ended or now is None:
                continue
            t = e.get('timeout') or limit
            if now - e['t'] > t + GRACE:
                stalled = (e, now - e['t'], t)
                break
        if stalled:
            witness['stacks'] = run.stderr[-3000:]
            witness['pending_execute'] = stalled[0]
            res.violation('execute-stalls',
                          f'when the watchdog fired, one checker.execute had '
                          f'been pending for {stalled[1]:.1f} s with a limit '
                          f'of {stalled[2]} s', witness)
        else:
            res.count('runs_watchdog')
        return
    faulty_td = {}
    for e in run.cmdlog[1:]:
        if e.get('fault'):
            faulty_td[e['td']] = e['fault']
    res.count('faulty_tests', sum(1 for e in run.cmdlog[1:] if e.get('fault')))
    res.count('tests', len(run.cmdlog))
    for c in checks:
        if c['verdict'] and c['td'] in faulty_td and \
                faulty_td[c['td']] != golden_fault:
            res.violation(
                f'faulty-candidate-accepted:{faulty_td[c["td"]]}',
                f'a candidate on which the command did '
                f'"{faulty_td[c["td"]]}" was accepted', witness)
            break
    for e in execs:
        if e.get('timed_out'):
            res.count('timeouts_observed')
        if e.get('exit') is not None and e['exit'] < 0:
            res.count('signal_exits_observed')
            res.add_set('signal_exit_codes', e['exit'])
        t = e.get('timeout') or limit
        res.cmax('max_execute_duration_over_limit_x100',
                 int(100 * e['dur'] / t))
        if e['dur'] > t + GRACE:
            witness['execute'] = e
            res.violation('execute-exceeds-limit',
                          f'one execute took {e["dur"]:.1f}s with limit {t}',
                          witness)
            break
    # liveness of every command process
    alive = []
    for e in run.cmdlog:
        st = proc_state(e['pid'], run.specfile)
        if st is not None and st != 'Z':
            alive.append((e['pid'], st, e.get('fault')))
    # what the harness found alive in the run's process group right after
    # the main process had exited (before it cleaned up)
    if not run.timed_out:
        for pid, st, cl in run.lingering_procs:
            if run.specfile in cl:
                alive.append((pid, st, 'lingering command'))
            else:
                res.count('lingering_non_command_processes')
    if alive:
        witness['alive'] = alive[:5]
        res.violation('command-process-survives',
                      f'{len(alive)} command process(es) still alive after '
                      f'ddSMT exited: {alive[:3]}', witness)
    if run.uncaught_traceback:
        res.count('runs_with_traceback')
        res.add_set('tracebacks', run.stderr.strip().splitlines()[-1][:120])
    elif run.rc != 0:
        res.count('runs_nonzero')
    res.add_set('placements', f'{desc.get("fault")}/{desc.get("strategy")}/'
                f'j{desc.get("jobs")}/t{desc.get("timeout")}')


def golden_cases(res, base, r):
    """Golden run itself faulty / match string absent."""
    text = ('(declare-const a Int)\n(declare-const b Int)\n'
            '(assert (> a 1))\n(assert (< b 2))\n(check-sat)\n')
    small = ['--disable-all', '--erase-node']
    # (1) crash minimisation: golden segfaults; candidates that also
    # segfault are accepted, others not
    rules = [realrun.rule('has:a', 0, '', '', fault='segv'),
             realrun.rule('all', 0, 'ok\n', '')]
    run = realrun.run_ddsmt(os.path.join(base, 'g1'), text, rules,
                            opts=['--strategy', 'ddmin', '--timeout', '5'] +
                            small, launcher={'monitors': ['check', 'exec']})
    judge(res, run, 5, {'case': 'golden-segv', 'input': text, 'rules': rules,
                        'fault': 'segv', 'strategy': 'ddmin', 'jobs': 1,
                        'timeout': 5}, golden_fault='segv')
    out = (run.out_bytes or b'').decode()
    res.count('golden_fault_cases')
    if run.rc != 0 or ' a ' not in out or 'b' in out.replace('(', ' '):
        res.violation('crash-minimisation-wrong',
                      f'golden run dies from SIGSEGV iff token a is present; '
                      f'expected a reduced file keeping a, got rc={run.rc} '
                      f'output {out!r}', {'stderr': run.stderr[-500:]})
    # (2) golden run times out (explicit limit); candidates timing out match
    rules = [realrun.rule('has:a', 0, '', '', fault='sleep'),
             realrun.rule('all', 0, 'ok\n', '')]
    run = realrun.run_ddsmt(os.path.join(base, 'g2'), text, rules,
                            opts=['--strategy', 'ddmin', '--timeout', '0.4'] +
                            small, launcher={'monitors': ['check', 'exec']})
    judge(res, run, 0.4, {'case': 'golden-timeout', 'input': text,
                          'rules': rules, 'fault': 'sleep',
                          'strategy': 'ddmin', 'jobs': 1, 'timeout': 0.4},
          golden_fault='sleep')
    res.count('golden_fault_cases')
    # (3) match string absent from the golden output: status 1, nothing run
    rules = realrun.simple_spec('has:a')
    cases = [(o, e, t, []) for o in ('--match-out', '--match-err')
             for e in ('bin', 'module') for t in (text, '', ' \n\n')
             if t == text or e == 'bin']
    # ... whatever else is on the command line (diagnostic options wrap the
    # whole run in context managers and handlers of their own)
    for k, extra in enumerate([['--profile'], ['--dump-diffs'], ['-v'],
                               ['-q'], ['--check-loops'], ['-j', '3'],
                               ['--strategy', 'ddmin', '--profile'],
                               ['--pretty-print', '--memout', '2000']]):
        cases.append((('--match-out', '--match-err')[k % 2],
                      ('bin', 'module')[k // 2 % 2], text, extra))
    for n, (opt, entry, itext, extra) in enumerate(cases):
        if True:
            run = realrun.run_ddsmt(
                os.path.join(base, f'g3{opt}{entry}{len(itext)}_{n}'),
                itext, rules, entry=entry,
                opts=[opt, 'NOT-THERE', '--timeout', '5'] + extra)
            res.count('evaluations')
            res.count('match_string_cases')
            if run.rc != 1 or len(run.cmdlog) != 1 or \
                    run.out_bytes is not None:
                res.violation(
                    'golden-match-string-not-enforced',
                    f'{opt} absent from the golden output (input of '
                    f'{len(itext)} bytes{", with " + " ".join(extra) if extra else ""}): exit status '
                    f'{run.rc}, {len(run.cmdlog) - 1} candidates tested', {
                        'opt': opt,
                        'entry': entry,
                        'other_options': extra,
                        'stderr': run.stderr[-400:]
                    })
    # (4) ... and a golden run that is stopped at the time limit has no
    # output at all, so the match string is absent from it
    slow = [realrun.rule('has:a', 0, 'NOT-THERE\n', 'NOT-THERE\n',
                         fault='sleep'),
            realrun.rule('all', 0, 'ok\n', '')]
    for n, opt in enumerate(('--match-out', '--match-err')):
        run = realrun.run_ddsmt(os.path.join(base, f'g4_{n}'), text, slow,
                                opts=[opt, 'NOT-THERE', '--timeout', '0.4'])
        res.count('evaluations')
        res.count('match_string_cases')
        if run.rc != 1 or run.out_bytes is not None or \
                run.uncaught_traceback or len(run.cmdlog) > 1:
            res.violation(
                'golden-match-string-not-enforced:golden-run-timed-out',
                f'{opt} with a golden run that is stopped at the time limit: '
                f'exit status {run.rc}, '
                f'{"traceback" if run.uncaught_traceback else "no traceback"}',
                {'opt': opt, 'stderr': run.stderr[-600:]})


TIMEOUT_GOLDEN_VARIANTS = [
    (['--strategy', 'ddmin'], []),
    (['--strategy', 'ddmin'], ['--ignore-out']),
    (['--strategy', 'hierarchical'], ['--ignore-err']),
    (['--strategy', 'hierarchical', '-j', '3'], []),
    (['--strategy', 'ddmin', '-j', '3'], ['--ignore-output']),
    (['--strategy', 'hybrid'], []),
]


def golden_timeout_case(res, base, k):
    """The golden run itself exceeds the (explicit) limit: a candidate is
    accepted exactly when it ends the same way - whatever of the two streams
    is compared - so minimisation proceeds and keeps what makes the command
    hang."""
    text = ('(declare-const a Int)\n(declare-const b Int)\n'
            '(assert (> a 1))\n(assert (< b 2))\n(check-sat)\n')
    strat, cmpopts = TIMEOUT_GOLDEN_VARIANTS[k % len(TIMEOUT_GOLDEN_VARIANTS)]
    rules = [realrun.rule('has:a', 0, '', '', fault='sleep'),
             realrun.rule('all', 0, 'ok\n', '')]
    opts = strat + ['--timeout', '0.4', '--disable-all', '--erase-node'] + \
        cmpopts
    run = realrun.run_ddsmt(os.path.join(base, f'gt{k}'), text, rules,
                            opts=opts,
                            launcher={'monitors': ['check', 'exec']})
    desc = {'case': 'golden-timeout', 'input': text, 'rules': rules,
            'fault': 'sleep', 'strategy': strat[1], 'jobs': 1,
            'timeout': 0.4}
    judge(res, run, 0.4, desc, golden_fault='sleep')
    res.count('golden_fault_cases')
    res.count('golden_timeout_cases')
    if run.timed_out:
        return
    out = (run.out_bytes or b'').decode()
    toks = out.replace('(', ' ').replace(')', ' ').split()
    if run.rc != 0 or 'a' not in toks or 'b' in toks:
        res.violation(
            'timeout-minimisation-wrong',
            f'the golden run exceeds the time limit iff token a is present '
            f'({" ".join(opts)}); expected a reduced file keeping a and '
            f'dropping b, got rc={run.rc} output {out!r}',
            {'opts': opts, 'stderr': run.stderr[-500:]})


def limit_cases(res, base, k):
    """Which limit each command runs under.  (a) automatic limits: each
    command gets 1.5 x (its *own* golden run time + 1 s) - with a fast main
    command and a cross check that needs 1.7 s the two differ by a factor
    of three; (b) explicit --timeout / --timeout-cc that differ.  Decided on
    the limit handed to every execute() (a logical quantity), not on
    whether something timed out."""
    text = '(declare-const a Int)\n(assert (> a 1))\n(check-sat)\n'
    rules = realrun.simple_spec('has:assert')
    small = ['--disable-all', '--erase-node', '--strategy',
             ['ddmin', 'hierarchical'][k % 2]]
    if k % 4 < 2:
        case = 'automatic'
        cc_rules = [realrun.rule('all', 3, 'cc\n', '', delay_us=1700000)]
        opts = small
        want_main = (1.5, 2.4)
        want_cc = (4.0, 6.5)
    else:
        case = 'explicit'
        cc_rules = [realrun.rule('all', 3, 'cc\n', '')]
        opts = small + ['--timeout', '7', '--timeout-cc', '3']
        want_main = (7, 7)
        want_cc = (3, 3)
    run = realrun.run_ddsmt(os.path.join(base, f'lim{k}'), text, rules,
                            opts=opts, cc_spec=cc_rules,
                            launcher={'monitors': ['check', 'exec']},
                            timeout=200)
    res.count('evaluations')
    res.count('limit_cases')
    if run.timed_out:
        res.count('runs_watchdog')
        return
    witness = {'case': case, 'opts': opts, 'stderr': run.stderr[-400:]}
    nmain = ncc = 0
    for e in run.events:
        if e['ev'] != 'exec':
            continue
        is_cc = any(str(a).endswith('spec_cc.txt') for a in e['argv'])
        lo, hi = want_cc if is_cc else want_main
        t = e.get('timeout')
        if is_cc:
            ncc += 1
        else:
            nmain += 1
        if t is None:
            # golden runs of the automatic case have no limit yet
            continue
        res.count('limits_compared')
        if not (lo <= t <= hi):
            witness['execute'] = {k_: e[k_] for k_ in ('argv', 'timeout',
                                                       'dur')}
            res.violation(
                f'wrong-time-limit:{"cross-check" if is_cc else "main"}:'
                f'{case}',
                f'the {"cross-check" if is_cc else "main"} command ran '
                f'under a limit of {t} s; with {case} limits it has to be '
                f'within [{lo}, {hi}] ({" ".join(opts)})', witness)
            return
    if ncc < 2 or nmain < 2:
        res.count('limit_cases_without_candidates')
    out = (run.out_bytes or b'').decode()
    if case == 'automatic' and run.rc == 0 and 'declare-const' in out:
        # every candidate matches both golden runs as long as the assert
        # is there: the declaration must have been removed
        res.violation('matching-candidate-rejected:slow-cross-check',
                      f'nothing was removed although candidates match both '
                      f'golden runs: {out!r}', witness)


def orphan_case(res, base):
    """Parallel ddmin: 'erase xx' succeeds while 'erase yy' hangs on another
    worker, and the rest of the run is shorter than the limit.  Whatever the
    strategy does with results it no longer needs, the hanging command has
    to be killed before ddSMT leaves."""
    n = 18
    lines = ['(assert xx)', '(assert keep0)', '(assert yy)'] + [
        f'(assert keep{i})' for i in range(1, n)]
    text = '\n'.join(lines) + '\n'
    allkeep = 'has:keep0'
    for i in range(1, n):
        allkeep += f' has:keep{i} &'
    rules = [realrun.rule(f'{allkeep} !', 0, 'ok\n', ''),
             realrun.rule('has:xx has:yy ! &', 0, '', '', fault='sleep'),
             realrun.rule('all', 1, 'bug\n', '', delay_us=300000)]
    opts = ['--strategy', 'ddmin', '-j', '4', '--timeout', '8']
    run = realrun.run_ddsmt(os.path.join(base, 'orphan'), text, rules,
                            opts=opts,
                            launcher={'monitors': ['check', 'exec']},
                            timeout=300)
    res.count('orphan_cases')
    judge(res, run, 8, {'case': 'success-while-another-candidate-hangs',
                        'input': text, 'rules': rules, 'fault': 'sleep',
                        'strategy': 'ddmin', 'jobs': 4, 'timeout': 8,
                        'opts': opts}, golden_fault=None)


def golden_cc_cases(res, base):
    """The same rule for the cross-check command's golden run."""
    text = ('(declare-const a Int)\n(declare-const b Int)\n'
            '(assert (> a 1))\n(assert (< b 2))\n(check-sat)\n')
    rules = realrun.simple_spec('has:a')
    cc_rules = realrun.simple_spec('has:b', 0, 'cc says sat\n', 'cc err\n')
    for opt in ('--match-out-cc', '--match-err-cc'):
        run = realrun.run_ddsmt(os.path.join(base, f'gcc{opt}'), text, rules,
                                cc_spec=cc_rules, entry='module',
                                opts=[opt, 'NOT-THERE', '--timeout', '5',
                                      '--timeout-cc', '5'])
        res.count('evaluations')
        res.count('match_string_cases')
        ncand = sum(1 for e in run.cmdlog
                    if not e['argv'][-1].endswith('in.smt2'))
        if run.rc != 1 or ncand or run.out_bytes is not None:
            res.violation(
                'golden-match-string-not-enforced:cross-check',
                f'{opt} absent from the golden output of the cross-check '
                f'command: exit status {run.rc}, {ncand} candidates tested',
                {'opt': opt, 'stderr': run.stderr[-400:]})


def shard(args):
    res = common.ShardResult()
    r = common.rng('c10', args['shard'])
    base = common.scratch_dir('c10')
    try:
        if args['shard'] == 0:
            golden_cases(res, base, r)
        if args['shard'] == 1:
            golden_cc_cases(res, base)
        if 2 <= args['shard'] < 8:
            golden_timeout_case(res, base, args['shard'] - 2)
        if 8 <= args['shard'] < 15:
            limit_cases(res, base, args['shard'] - 8)
        if args['shard'] == 15:
            orphan_case(res, base)
        for i in range(args['n']):
            text, rules, opts, limit, desc = make_case(r)
            wd = os.path.join(base, f'run{i}')
            run = realrun.run_ddsmt(wd, text, rules, opts=opts,
                                    cc_spec=desc.get('cc_rules'),
                                    launcher={'monitors': ['check', 'exec']},
                                    timeout=120 if desc.get('cc') else 240)
            judge(res, run, limit, desc, golden_fault=desc.get("golden_fault"))
            res.count('runs')
            if any(e.get('fault') for e in run.cmdlog[1:]):
                res.add_distinct(common.digest(repr((text, rules, opts))))
                res.count('runs_with_faulty_tests')
            if i < 1:
                res.sample({'input': text, 'rules': rules, 'opts': opts,
                            'tests': len(run.cmdlog), 'wall': run.wall})
            shutil.rmtree(wd, ignore_errors=True)
    finally:
        shutil.rmtree(base, ignore_errors=True)
    return res.to_dict()


def run(ctx):
    n = 3 if ctx.tier == 'quick' else 60
    shards = [{'shard': i, 'n': n} for i in range(common.NCPU)]
    results = common.run_shards('checks.c10', shards, timeout=3500)
    common.merge_shards(ctx, results)
    ctx.rule = (
        'real runs under the launcher (check/exec events): inputs with 4-7 '
        'asserts; 1-3 classes of candidates (token present and another '
        'removed) make the command sleep / spin on 1 or 4 threads / allocate '
        '(with and without --memout) / abort / segfault / kill itself / hang '
        'after forking a helper that keeps stdout and stderr open; in half '
        'of the sleep/spin/forksleep cases the faulty command is the '
        'cross-check command (explicit or automatic --timeout-cc); '
        '--timeout explicit {0.2,0.3,0.5} or automatic; -j{1,4}; all '
        'strategies; plus golden-run cases (segfault, timeout, absent match '
        'string x 2 entry points); distinct non-trivial = distinct cases in '
        'which at least one faulty test was really executed')
    ctx.assumptions = [
        'verdicts are decided on recorded durations with a 10 s grace over '
        'sub-second limits; a process in state Z counts as dead',
        'only the direct child must die (grand-children of wrapper scripts '
        'are outside the statement)'
    ]
    if ctx.counters.get('faulty_tests', 0) == 0:
        ctx.inconclusive_because('no faulty test was executed')
    ctx.judge_watchdog('runs')


def replay(data):
    res = common.ShardResult()
    base = common.scratch_dir('c10r')
    try:
        for k, c in enumerate(data['cases']):
            w = c['witness']
            if data.get('key') == 'timeout-minimisation-wrong':
                for i, (st, co) in enumerate(TIMEOUT_GOLDEN_VARIANTS):
                    if st + ['--timeout', '0.4', '--disable-all',
                             '--erase-node'] + co == w.get('opts'):
                        golden_timeout_case(res, base, i)
                continue
            if 'input' not in w:
                continue
            run = realrun.run_ddsmt(os.path.join(base, f'r{k}'), w['input'],
                                    w['rules'], opts=w['opts'],
                                    launcher={'monitors': ['check', 'exec']})
            judge(res, run, w.get('timeout') or 1.6, w)
    finally:
        shutil.rmtree(base, ignore_errors=True)
    for v in res.violations:
        print(v['key'], v['what'][:300])
    return 1 if res.violations else 0
