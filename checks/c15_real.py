"""C15 part (ii): the same closure / re-declaration oracle on every candidate
that the *real* hierarchical strategy builds (one proposal per candidate).
In a real run the proposals depend on ddSMT's symbol tables being those of
the current input; the API-plane part of C15 rebuilds them itself and cannot
see a strategy that lets them go stale."""
import os
import shutil

from vlib import common, realrun, refreader, workload


def make_case(r):
    kind = r.choice(['contains', 'bw', 'general'])
    if kind == 'contains':
        n = r.randint(2, 4)
        lines = ['(declare-const x String)'] + [
            f'(declare-const y{i} String)' for i in range(n)] + [
            f'(assert (str.contains x y{i}))' for i in range(n)] + [
            '(check-sat)']
        text = '\n'.join(lines) + '\n'
        # solver-like: declarations and uses must stay (each y_i declared
        # and used, x declared and used n times, n+1 String declarations)
        pred = f'count:assert>={n} scoped & count:x>={n + 1} & ' \
               f'count:String>={n + 1} &'
        for i in range(n):
            pred += f' count:y{i}>=2 &'
        pred += f' count:declare-const>={n + 1} &'
        # every assertion is a containment, in either form:
        # #str.contains + #str.++ >= n
        alts = []
        for k in range(n + 1):
            alts.append(f'count:str.contains>={k} count:str.%2B%2B>={n - k} &')
        disj = alts[0]
        for a in alts[1:]:
            disj += f' {a} |'
        pred += f' {disj} &'
        rules = realrun.simple_spec(pred)
    elif kind == 'bw':
        lines = ['(declare-const v (_ BitVec 8))',
                 '(declare-const |q w| (_ BitVec 8))',
                 '(declare-const w (_ BitVec 8))',
                 '(assert (= v (bvadd |q w| w)))',
                 '(assert (bvult w v))', '(check-sat)']
        text = '\n'.join(lines) + '\n'
        rules = realrun.simple_spec('count:assert>=2 scoped &')
    else:
        s = workload.small_script(r, 'small')
        text = workload.render_with_noise(r, s.nested(), comments=False)
        rules, _ = workload.pick_spec(r, text, families=['scoped', 'count',
                                                         'has'])
    opts = ['--strategy', 'hierarchical', '-j', str(r.choice([1, 2])),
            '--timeout', '20', '--strings', '--bv', '--arithmetic']
    return text, rules, opts, {'input': text, 'rules': rules, 'opts': opts,
                               'kind': kind}


def shard(args):
    res = common.ShardResult()
    r = common.rng('c15real', args['shard'])
    base = common.scratch_dir('c15')
    try:
        for i in range(args['n']):
            text, rules, opts, desc = make_case(r)
            wd = os.path.join(base, f'r{i}')
            run = realrun.run_ddsmt(wd, text, rules, opts=opts,
                                    launcher={'monitors': ['closure']})
            shutil.rmtree(wd, ignore_errors=True)
            res.count('evaluations')
            res.count('real_runs')
            if run.timed_out or run.rc != 0:
                res.count('real_runs_failed')
                continue
            n = sum(1 for e in run.events if e['ev'] == 'cand_checked')
            res.count('real_candidates_checked', n)
            for e in run.events:
                if e['ev'] == 'monitor_error':
                    res.add_set('monitor_errors', e['error'][:100])
                    res.count('monitor_errors')
                if e['ev'] == 'badcand':
                    w = dict(desc)
                    w['candidate'] = e.get('text')
                    w['symbols'] = e.get('symbols')
                    m = (e.get('mutator') or '?').replace('(global) ', '')
                    res.violation(
                        f'real-run:{e["kind"]}:{m}',
                        f'in a real hierarchical run the proposal of '
                        f'"{e.get("mutator")}" gave a candidate that '
                        f'{e["kind"]} ({e.get("symbols")})', w)
                    break
    finally:
        shutil.rmtree(base, ignore_errors=True)
    return res.to_dict()


def run(ctx):
    n = 3 if ctx.tier == 'quick' else 60
    shards = [{'shard': i, 'n': n} for i in range(common.NCPU)]
    results = common.run_shards('checks.c15_real', shards, timeout=3400)
    common.merge_shards(ctx, results)
    if ctx.counters.get('monitor_errors', 0):
        ctx.inconclusive_because('the closure monitor itself failed: ' +
                                 str(ctx.extra.get('monitor_errors')))
    if ctx.counters.get('real_candidates_checked', 0) == 0:
        ctx.inconclusive_because('no candidate of a real run was checked')
