"""C11 - applying a simplification changes exactly the designated subtrees.

Oracle: vlib.refmodel.substitute (nested lists; designated positions computed
on the input, replacements inserted verbatim) vs. the real
mutator_utils.apply_simp / nodes.substitute; plus base immutability, object
identity of untouched subtrees and a logical step budget.
"""
import os

from vlib import budget, common, refmodel

LEVEL = 'exploration'

ALPHA = ['a', 'b', 'c', 'x', 'y', '+', 'f', 'g', '0', '1', 'a', 'b']
MODES = [
    'ids', 'ids-delete', 'struct-leaf', 'struct-subtree', 'struct-delete',
    'selfkey', 'swap', 'mixed', 'absent', 'decls'
]


def rand_tree(r, depth, bud):
    if depth <= 0 or bud[0] <= 0 or r.random() < 0.35:
        return r.choice(ALPHA)
    n = min(r.choice([0, 1, 2, 2, 3, 3, 4, 6]), bud[0])
    bud[0] -= n
    return [rand_tree(r, depth - 1, bud) for _ in range(n)]


def rand_items(r):
    items = []
    if r.random() < 0.5:
        for _ in range(r.randint(0, 3)):
            items.append(
                r.choice([['set-logic', 'QF_BV'], ['set-info', ':a', 'b'],
                          ['set-option', ':x', 'y']]))
    bud = [r.choice([5, 20, 60, 150])]
    for _ in range(r.randint(1, 6)):
        items.append(rand_tree(r, r.randint(0, 6), bud))
    return items


def all_nodes(exprs):
    """[(node, path)] in pre-order."""
    out = []
    stack = [(e, (i, )) for i, e in reversed(list(enumerate(exprs)))]
    while stack:
        n, p = stack.pop()
        out.append((n, p))
        if not isinstance(n.data, str):
            stack.extend(
                (c, p + (i, )) for i, c in reversed(list(enumerate(n.data))))
    return out


def nested(p, q):
    m = min(len(p), len(q))
    return p[:m] == q[:m]


def contains(tree, key):
    if tree == key:
        return True
    if isinstance(tree, list):
        return any(contains(c, key) for c in tree)
    return False


def gen_simp(ns, r, exprs, mode):
    """Returns (substs dict for the real code, id_map, struct_pairs,
    fresh_var nodes, info)."""
    B = lambda t: refmodel.build(ns.Node, t)  # noqa: E731
    nodes = all_nodes(exprs)
    substs = {}
    id_map = {}
    struct = []
    fresh = []
    info = {}
    bud = lambda: [r.choice([1, 4, 10])]  # noqa: E731

    def pick_ids(k, avoid_keys=()):
        chosen = []
        cand = list(nodes)
        r.shuffle(cand)
        for n, p in cand:
            if len(chosen) >= k:
                break
            if any(nested(p, q) for _, q in chosen):
                continue
            if any(contains(refmodel.to_nested(n), k2) for k2 in avoid_keys):
                continue
            chosen.append((n, p))
        return chosen

    def replacement_for(n, avoid_keys=()):
        """A replacement Node and its nested form."""
        for _ in range(20):
            c = r.random()
            if c < 0.3 and not isinstance(n.data, str) and n.data:
                # a descendant of the designated node (ReplaceByChild)
                ch = r.choice(n.data)
                t = refmodel.to_nested(ch)
                rep = ch
            elif c < 0.5:
                # a subtree from elsewhere in the input (variable
                # elimination, merged ddmin subsets): it may carry, or
                # contain a node that carries, another pending identity key -
                # the copy inserted here is still "inserted as given"
                other, _ = r.choice(nodes)
                t = refmodel.to_nested(other)
                rep = other
                info['replacement_from_input'] = True
            elif c < 0.6 and avoid_keys:
                # contains (but is not) the structural key of the same
                # simplification: inserted as given, not rewritten
                k = avoid_keys[0]
                t = r.choice([['f', k], [k, k], ['g', ['h', k], '1']])
                info['id_replacement_contains_structural_key'] = True
                return B(t), t
            else:
                t = rand_tree(r, r.randint(0, 3), bud())
                rep = B(t)
            if not any(contains(t, k) for k in avoid_keys):
                return rep, t
        return B('zz'), 'zz'

    if mode in ('ids', 'ids-delete', 'mixed', 'decls'):
        keys = []
        if mode == 'mixed':
            # structural key first; id-designated regions and id
            # replacements must not contain it (unspecified overlap)
            n, _ = r.choice(nodes)
            key = refmodel.to_nested(n)
            rep_t = rand_tree(r, r.randint(0, 2), bud())
            if contains(rep_t, key):
                rep_t = 'zz' if key != 'zz' else 'zy'
            substs[B(key)] = B(rep_t)
            struct.append((key, rep_t))
            keys = [key]
        for n, p in pick_ids(r.randint(1, 5), keys):
            if mode == 'ids-delete' or r.random() < 0.25:
                substs[n.id] = None
                id_map[n.id] = None
            else:
                rep, t = replacement_for(n, keys)
                substs[n.id] = rep
                id_map[n.id] = t
        if mode == 'decls' or r.random() < 0.2:
            for i in range(r.randint(1, 3)):
                fresh.append(B(['declare-const', f'v{i}', 'Int']))
    elif mode in ('struct-leaf', 'struct-subtree', 'struct-delete',
                  'selfkey', 'absent'):
        if mode == 'absent':
            key = r.choice(['nope', ['nope', 'a']])
        elif mode == 'struct-leaf':
            leaves = [n for n, _ in nodes if isinstance(n.data, str)]
            key = r.choice(leaves).data if leaves else 'a'
        else:
            n, _ = r.choice(nodes)
            key = refmodel.to_nested(n)
        if mode == 'struct-delete':
            rep_t = None
        elif mode == 'selfkey':
            # the replacement contains its own key
            rep_t = r.choice([[r.choice(ALPHA), key, '2'], ['*', key, key],
                              [key], ['f', ['g', key]]])
        else:
            rep_t = rand_tree(r, r.randint(0, 3), bud())
            if contains(rep_t, key):
                mode2 = 'selfkey'
                info['mode2'] = mode2
        substs[B(key)] = None if rep_t is None else B(rep_t)
        struct.append((key, rep_t))
    elif mode == 'swap':
        a, b = r.sample(['a', 'b', 'c', 'x', 'y'], 2)
        substs[B(a)] = B(b)
        substs[B(b)] = B(a)
        struct.append((a, b))
        struct.append((b, a))
    return substs, id_map, struct, fresh, info


def step_limit(n):
    return 10_000 + 400 * n + 5 * n * n


_codes = None


def budget_codes(ns):
    global _codes
    if _codes is None:
        _codes = (budget.code_objects(ns.nodes.substitute) +
                  budget.code_objects(ns.mutator_utils.apply_simp) +
                  budget.code_objects(ns.smtlib.introduce_variables) +
                  budget.code_objects(ns.Node))
    return _codes


def classify(mode, info, problem):
    if mode == 'selfkey' or info.get('mode2') == 'selfkey':
        return 'substitute-revisits-structural-replacement'
    return f'{problem}:{mode}'


def check_case(ns, res, exprs, substs, id_map, struct, fresh, mode, info,
               single=False):
    """Apply with the real code and with the model, compare."""
    res.count('evaluations')
    res.count(f'mode_{mode}')
    for k in ('replacement_from_input',
              'id_replacement_contains_structural_key'):
        if info.get(k):
            res.count('cases_' + k)
    before = refmodel.snapshot(exprs)
    nnodes = ns.nodes.count_nodes(exprs)
    want, hits, untouched = refmodel.substitute(exprs, id_map, struct)
    if hits and fresh and not single:
        want = refmodel.insert_decls(want,
                                     [refmodel.to_nested(v) for v in fresh])
    if hits:
        res.count('cases_with_a_designated_position')
    if any(v is None for v in list(id_map.values()) + [v for _, v in struct]):
        res.count('deletions')
    witness = {
        'input': refmodel.to_nested_list(exprs),
        'id_targets': {
            str(p): (None if id_map[n.id] is None else id_map[n.id])
            for n, p in all_nodes(exprs) if n.id in id_map
        },
        'structural': struct,
        'fresh': [refmodel.to_nested(v) for v in fresh],
        'mode': mode,
        'single': single,
    }
    simp = ns.mutator_utils.Simplification(dict(substs), list(fresh))
    try:
        with budget.StepBudget(budget_codes(ns), step_limit(nnodes)) as b:
            if single:
                got = ns.nodes.substitute(exprs[0], dict(substs))
                got = [] if got is None else [got]
            else:
                got = ns.mutator_utils.apply_simp(exprs, simp)
        res.cmax('max_steps_per_node_x100', int(100 * b.steps / max(1, nnodes)))
    except budget.BudgetExceeded as e:
        res.violation(
            classify(mode, info, 'step-budget-exceeded'),
            f'apply_simp did not finish within {step_limit(nnodes)} logical '
            f'steps on {nnodes} nodes ({e})', witness)
        return
    except Exception as e:  # noqa
        res.violation(classify(mode, info, f'raised-{type(e).__name__}'),
                      f'apply_simp raised {type(e).__name__}: {e}', witness)
        return
    got_nested = refmodel.to_nested_list(got)
    if got_nested != want:
        witness['got'] = got_nested
        witness['model'] = want
        res.violation(classify(mode, info, 'result-differs'),
                      f'apply_simp result differs from the model: got '
                      f'{got_nested!r}, model {want!r}', witness)
        return
    after = refmodel.snapshot(exprs)
    if after != before:
        res.violation(classify(mode, info, 'base-modified'),
                      'the input the simplification was applied to changed',
                      witness)
    # identity of untouched subtrees
    present = set()
    stack = list(got)
    while stack:
        n = stack.pop()
        present.add(id(n))
        if not isinstance(n.data, str):
            stack.extend(n.data)
    missing = untouched - present
    res.count('identity_checks', len(untouched))
    if missing and hits:
        res.violation(
            classify(mode, info, 'identity-lost'),
            f'{len(missing)} untouched subtree(s) were copied instead of '
            f'kept', witness)
    if not hits and got is not exprs and not single:
        res.count('unchanged_but_new_list')


def real_proposals(ns, res, r, nscripts):
    """The simplifications that actually occur: every proposal of every
    mutator on generated scripts, applied by the real code and by the
    model."""
    from vlib import dd, gen_smt, refreader, shapes
    muts = [(c, cls()) for c, (mod, cls, opt, grp) in
            dd.all_mutator_classes(ns).items()]
    for k in range(nscripts):
        pool = ['ints', 'reals', 'bv', 'fp', 'strings', 'arrays', 'dt', 'uf',
                'let', 'quant', 'defs', 'annot']
        g = gen_smt.Gen(r, ['core'] + r.sample(pool, r.randint(2, 6)))
        script = g.script(nasserts=r.randint(1, 3), depth=r.randint(1, 3))
        extra = shapes.inject_shapes(g, r, depth=1, extra=True, count=2)
        cmds = list(script.cmds)
        known = {id(c) for c in cmds}
        nd = [c for c in g.commands if id(c) not in known]
        fa = next((i for i, c in enumerate(cmds) if isinstance(c, gen_smt.Cmd)
                   and c.items[0] == 'assert'), len(cmds))
        cmds = cmds[:fa] + nd + [gen_smt.Cmd(['assert', t])
                                 for t in extra] + cmds[fa:]
        text = refreader.render(gen_smt.Script(cmds).nested())
        exprs = list(ns.nodeio.parse_smtlib(text))
        ns.smtlib.collect_information(exprs)
        for node in ns.nodes.bfs(exprs):
            for mname, m in muts:
                try:
                    if hasattr(m, 'filter') and not m.filter(node):
                        continue
                    props = []
                    if hasattr(m, 'mutations'):
                        props += list(m.mutations(node))[:4]
                    if hasattr(m, 'global_mutations'):
                        props += list(m.global_mutations(node, exprs))[:4]
                except Exception:  # noqa
                    continue
                for simp in props:
                    id_map = {}
                    struct = []
                    ok = True
                    for key, val in simp.substs.items():
                        v = None if val is None else refmodel.to_nested(val)
                        if isinstance(key, int):
                            id_map[key] = v
                        else:
                            struct.append((refmodel.to_nested(key), v))
                    # overlaps the statement leaves open are not judged
                    if id_map and struct:
                        ok = False
                    for kk, v in struct:
                        for k2, _ in struct:
                            if v is not None and k2 != kk and \
                                    contains(v, k2):
                                ok = False
                    ids = [p for n, p in all_nodes(exprs) if n.id in id_map]
                    if any(nested(p, q) for i, p in enumerate(ids)
                           for q in ids[i + 1:]):
                        ok = False
                    if not ok:
                        res.count('real_proposals_with_open_overlap')
                        continue
                    res.count('real_proposals')
                    check_case(ns, res, exprs, dict(simp.substs), id_map,
                               struct, list(simp.fresh_vars),
                               f'real', {'mutator': mname})


def mutate_items(r, items, kind):
    """The next input of a history: a leaf exchanged for another of the same
    length (the pickled form keeps its size), a size-changing edit, or
    nothing."""
    import copy
    nxt = copy.deepcopy(items)
    paths = []

    def walk(t, p):
        for i, c in enumerate(t):
            if isinstance(c, list):
                walk(c, p + [i])
            else:
                paths.append(p + [i])

    walk(nxt, [])
    if not paths or kind == 'again':
        return nxt
    p = r.choice(paths)
    t = nxt
    for i in p[:-1]:
        t = t[i]
    old = t[p[-1]]
    if kind == 'same':
        pool = [a for a in ALPHA + ['z', 'q', '7'] if len(a) == len(old)
                and a != old]
        if pool:
            t[p[-1]] = r.choice(pool)
    else:
        t[p[-1]] = old + r.choice(['0', 'xx', '_long_name'])
    return nxt


def pipeline(ns, res, r, nhist):
    """The application as the strategies perform it: the real
    strategy_ddmin._worker and strategy_hierarchical.Consumer.check get a
    *history* of pickled inputs (same-size edits, size-changing edits,
    returns to earlier inputs, the same input again) each with a
    simplification computed for exactly that input; the candidate they hand
    to the checker must be the model's result for the input that was sent.
    Only the command is replaced (checker.check_exprs records and accepts)."""
    import importlib
    import pickle
    import threading
    ddmin = importlib.import_module('ddsmt.strategy_ddmin')
    hier = importlib.import_module('ddsmt.strategy_hierarchical')
    checker = importlib.import_module('ddsmt.checker')
    Simp = ns.mutator_utils.Simplification
    seen = []
    orig = checker.check_exprs
    checker.check_exprs = lambda exprs: (seen.append(exprs), True)[1]
    consumer = hier.Consumer(threading.Event())
    try:
        for _ in range(nhist):
            cur = rand_items(r)
            history = []
            for step in range(r.randint(3, 8)):
                kind = r.choice(['same', 'same', 'same', 'size', 'back',
                                 'again'])
                if kind == 'back' and history:
                    nxt = mutate_items(r, r.choice(history), 'again')
                else:
                    nxt = mutate_items(r, cur, kind)
                history.append(cur)
                cur = nxt
                exprs = [refmodel.build(ns.Node, t) for t in cur]
                mode = r.choice(['ids', 'ids', 'ids-delete', 'struct-leaf',
                                 'struct-subtree', 'decls'])
                substs, id_map, struct, fresh, info = gen_simp(
                    ns, r, exprs, mode)
                if mode == 'struct-subtree' and info.get('mode2'):
                    continue
                want, hits, _ = refmodel.substitute(exprs, id_map, struct)
                if not hits:
                    continue
                if fresh:
                    want = refmodel.insert_decls(
                        want, [refmodel.to_nested(v) for v in fresh])
                witness = {
                    'history': history + [cur], 'step': step, 'kind': kind,
                    'mode': mode, 'model': want,
                    'id_targets': {
                        str(p_): id_map[n.id]
                        for n, p_ in all_nodes(exprs) if n.id in id_map},
                    'structural': struct,
                }
                for entry in ('ddmin', 'hierarchical'):
                    del seen[:]
                    res.count('evaluations')
                    res.count('pipeline_applications')
                    res.count(f'pipeline_{entry}')
                    res.add_set('pipeline_history_kinds', kind)
                    simp = Simp(dict(substs), list(fresh))
                    try:
                        if entry == 'ddmin':
                            task = ddmin.Task(step, pickle.dumps(exprs),
                                              pickle.dumps([simp]))
                            ddmin._worker(task)
                        else:
                            task = hier.Task(step, 'pipeline',
                                             pickle.dumps(exprs),
                                             pickle.dumps(simp), None)
                            consumer.check(task)
                    except Exception as e:  # noqa
                        res.violation(
                            f'pipeline-raised-{type(e).__name__}:{entry}',
                            f'{entry} worker raised {e!r}', witness)
                        return
                    if not seen:
                        res.violation(
                            f'pipeline-no-candidate:{entry}',
                            f'the {entry} worker produced no candidate for a '
                            f'simplification that designates a position of '
                            f'the input it was sent', witness)
                        return
                    got = refmodel.to_nested_list(seen[-1])
                    if got != want:
                        w = dict(witness)
                        w['got'] = got
                        res.violation(
                            f'pipeline-result-differs:{entry}',
                            f'the {entry} worker was sent {cur!r} (step '
                            f'{step} of a history, {kind}) with a '
                            f'simplification for it, but checked {got!r}; '
                            f'model: {want!r}', w)
                        return
    finally:
        checker.check_exprs = orig


def alternatives(ns, res, r, n):
    """One ddmin task carries *several* simplifications, all computed for the
    task's input; the worker tries them one after the other until the
    command accepts one.  Every candidate it hands to the checker must be
    the task's input with exactly that one simplification applied - also
    after earlier alternatives of the same task were rejected."""
    import importlib
    import pickle
    ddmin = importlib.import_module('ddsmt.strategy_ddmin')
    checker = importlib.import_module('ddsmt.checker')
    Simp = ns.mutator_utils.Simplification
    seen = []
    accept_at = [0]
    orig = checker.check_exprs

    def stub(exprs):
        seen.append(exprs)
        return len(seen) > accept_at[0]

    checker.check_exprs = stub
    try:
        for i in range(n):
            exprs = [refmodel.build(ns.Node, t) for t in rand_items(r)]
            k = r.randint(2, 4)
            simps, wants = [], []
            for _ in range(k):
                mode = r.choice(['ids', 'ids-delete', 'struct-leaf'])
                substs, id_map, struct, fresh, info = gen_simp(ns, r, exprs,
                                                               mode)
                want, hits, _u = refmodel.substitute(exprs, id_map, struct)
                if not hits:
                    continue
                simps.append(Simp(dict(substs), []))
                wants.append(want)
            if len(simps) < 2:
                continue
            accept_at[0] = r.randint(1, len(simps) - 1)
            del seen[:]
            pickled = r.random() < 0.5
            task = ddmin.Task(i, pickle.dumps(exprs) if pickled else exprs,
                              pickle.dumps(simps) if pickled else simps)
            try:
                ddmin._worker(task)
            except Exception as e:  # noqa
                res.violation(f'alternatives-raised-{type(e).__name__}',
                              f'_worker raised {e!r}', {})
                return
            res.count('evaluations')
            res.count('tasks_with_alternatives')
            for j, cand in enumerate(seen):
                res.count('alternative_candidates_compared')
                got = refmodel.to_nested_list(cand)
                if j < len(wants) and got != wants[j]:
                    res.violation(
                        'alternatives:candidate-is-not-input-plus-one-'
                        'simplification',
                        f'alternative #{j + 1} of a ddmin task (after '
                        f'{j} rejected one(s)) gave {got!r}; the task\'s '
                        f'input with that simplification alone is '
                        f'{wants[j]!r}',
                        {'input': refmodel.to_nested_list(exprs),
                         'alternative': j, 'got': got, 'model': wants[j]})
                    return
    finally:
        checker.check_exprs = orig


def adopted_histories(ns, res, r, nhist):
    """The input of a round is what the strategy adopted in the round
    before: the answer of a worker (pickled), re-duplicated.  After a
    simplification that inserted *one* replacement at several places, a
    simplification that designates - by identity - a node inside a later
    copy must change that copy and nothing else."""
    import pickle
    Simp = ns.mutator_utils.Simplification

    def at(exprs, path):
        n = exprs[path[0]]
        for i in path[1:]:
            n = n.data[i]
        return n

    def replace_at(nested, path, new):
        if len(path) == 1:
            return nested[:path[0]] + [new] + nested[path[0] + 1:]
        out = list(nested)
        out[path[0]] = replace_at(nested[path[0]], path[1:], new)
        return out

    for _ in range(nhist):
        cur = [refmodel.build(ns.Node, t) for t in rand_items(r)]
        for step in range(r.randint(2, 4)):
            nodes_ = all_nodes(cur)
            # (A) one replacement object at k >= 2 pairwise non-nested places
            cand = list(nodes_)
            r.shuffle(cand)
            chosen = []
            for n, p in cand:
                if len(chosen) >= r.randint(2, 4):
                    break
                if not any(nested(p, q) for _, q in chosen):
                    chosen.append((n, p))
            if len(chosen) < 2:
                break
            rep_t = r.choice([['f', 'u', ['g', 'v']], ['h', ['k', 'w'], 'z'],
                              ['m', 'n']])
            rep = refmodel.build(ns.Node, rep_t)
            simp = Simp({n.id: rep for n, _ in chosen}, [])
            try:
                worker_side = pickle.loads(pickle.dumps(cur))
                answer = pickle.loads(pickle.dumps(
                    ns.mutator_utils.apply_simp(worker_side, simp)))
                adopted = ns.nodes.reduplicate(answer)
            except Exception as e:  # noqa
                res.violation(f'adopted-history-raised-{type(e).__name__}',
                              f'adopting a sharing simplification raised '
                              f'{e!r}', {})
                return
            # (B) designate a node inside the *last* copy (in document
            # order) by identity
            last = max(p for _, p in chosen)
            sub = all_nodes([at(adopted, last)])
            _, rel = r.choice(sub)
            q = last + tuple(rel[1:])
            target = at(adopted, q)
            before = refmodel.to_nested_list(adopted)
            want = replace_at(before, list(q), 'MARK')
            res.count('evaluations')
            res.count('adopted_history_steps')
            got = ns.mutator_utils.apply_simp(
                adopted, Simp({target.id: ns.Node('MARK')}, []))
            got_n = refmodel.to_nested_list(got)
            if got_n != want:
                res.violation(
                    'adopted-history:identity-designates-another-position',
                    f'after a replacement was inserted at {len(chosen)} '
                    f'places and the result adopted (pickled, '
                    f're-duplicated), the simplification keyed by the '
                    f'identity of the node at {q} changed another position: '
                    f'got {got_n!r}, expected {want!r}',
                    {'input': before, 'path': list(q), 'got': got_n})
                return
            cur = adopted


def shard(args):
    from vlib import dd
    ns = dd.load()
    res = common.ShardResult()
    r = common.rng('c11', args['shard'])
    if args.get('kind') == 'real':
        real_proposals(ns, res, r, args['n'])
        return res.to_dict()
    if args.get('kind') == 'pipeline':
        pipeline(ns, res, r, args['n'])
        adopted_histories(ns, res, r, args['n'])
        alternatives(ns, res, r, args['n'] * 4)
        return res.to_dict()
    for i in range(args['n']):
        items = rand_items(r)
        exprs = [refmodel.build(ns.Node, t) for t in items]
        mode = MODES[i % len(MODES)]
        substs, id_map, struct, fresh, info = gen_simp(ns, r, exprs, mode)
        check_case(ns, res, exprs, substs, id_map, struct, fresh, mode, info)
        res.add_distinct(
            common.digest(repr((items, sorted(map(str, id_map)), struct))))
        # the same through the single-Node entry point
        if i % 3 == 0:
            one = [exprs[-1]]
            ids_in = {n.id for n, _ in all_nodes(one)}
            s2 = {
                k: v
                for k, v in substs.items()
                if not isinstance(k, int) or k in ids_in
            }
            im2 = {k: v for k, v in id_map.items() if k in ids_in}
            if s2:
                check_case(ns, res, one, s2, im2, struct, [], mode, info,
                           single=True)
        if i < 2:
            res.sample({
                'input': items,
                'mode': mode,
                'structural_keys': struct,
                'n_id_keys': len(id_map)
            })
    return res.to_dict()


def run(ctx):
    n = 3000 if ctx.tier == 'quick' else 600000
    shards = [{'shard': i, 'n': n} for i in range(common.NCPU)]
    shards += [{'shard': 100 + i, 'kind': 'real',
                'n': 3 if ctx.tier == 'quick' else 150} for i in range(8)]
    shards += [{'shard': 200 + i, 'kind': 'pipeline',
                'n': 40 if ctx.tier == 'quick' else 4000} for i in range(4)]
    results = common.run_shards('checks.c11', shards, timeout=3000)
    common.merge_shards(ctx, results)
    from checks import c11_real
    c11_real.run(ctx)
    ctx.rule = (
        'random lists of trees over a 9-letter alphabet (so structural keys '
        'occur repeatedly), optional set-logic/set-info prefix; '
        'simplifications by mode: 1-5 id keys on pairwise non-nested nodes '
        '(replace by fresh tree or by own descendant / delete), structural '
        'keys on leaves / subtrees / absent keys, deletion, replacements '
        'containing their own key, swapped pairs, mixed id+structural '
        'without overlap, fresh declarations; every third case also through '
        'substitute(Node, ...); plus every proposal of all 53 real mutators '
        'on gen_smt scripts; plus the application as the strategies perform '
        'it: the real ddmin _worker and hierarchical Consumer.check are '
        'handed histories of pickled inputs (same-size edits, size changes, '
        'returns, repeats), each with a simplification for exactly that '
        'input, and the candidate they check is compared with the model; '
        'real parallel runs (-j 4..16) with only EraseNode enabled and a '
        'command that accepts everything equally fast: every written '
        'content must be its predecessor with something removed; '
        'distinct non-trivial = distinct (input, simplification) pairs')
    ctx.assumptions = [
        'overlaps between id-designated and structurally designated regions '
        'and replacements containing *other* keys are not generated (the '
        'statement leaves them open)',
        'the harness hands substitute() a copy of the dict (it consumes id '
        'entries)'
    ]
    if ctx.counters.get('real_proposals', 0) == 0:
        ctx.inconclusive_because('no proposal of a real mutator was applied')
    for m in MODES:
        if ctx.counters.get(f'mode_{m}', 0) == 0:
            ctx.inconclusive_because(f'mode {m} never evaluated')
    if ctx.counters.get('tasks_with_alternatives', 0) == 0:
        ctx.inconclusive_because('no task with alternatives was driven')
    if ctx.counters.get('adopted_history_steps', 0) == 0:
        ctx.inconclusive_because('no adopted history was driven')
    for e in ('ddmin', 'hierarchical'):
        if ctx.counters.get(f'pipeline_{e}', 0) == 0:
            ctx.inconclusive_because(f'{e} worker never driven')
    if ctx.counters.get('identity_checks', 0) == 0:
        ctx.inconclusive_because('no identity check performed')


def replay_pipeline(ns, res, w):
    """Send the recorded history again (identity simplification on the last
    top-level entry for the earlier inputs, the recorded one for the last)."""
    import importlib
    import pickle
    import threading
    ddmin = importlib.import_module('ddsmt.strategy_ddmin')
    hier = importlib.import_module('ddsmt.strategy_hierarchical')
    checker = importlib.import_module('ddsmt.checker')
    Simp = ns.mutator_utils.Simplification
    B = lambda t: refmodel.build(ns.Node, t)  # noqa: E731
    seen = []
    orig = checker.check_exprs
    checker.check_exprs = lambda exprs: (seen.append(exprs), True)[1]
    consumer = hier.Consumer(threading.Event())
    try:
        for i, items in enumerate(w['history']):
            exprs = [B(t) for t in items]
            last = i == len(w['history']) - 1
            if last:
                nodes = {str(p): n for n, p in all_nodes(exprs)}
                substs = {}
                for p, t in w['id_targets'].items():
                    substs[nodes[p].id] = None if t is None else B(t)
                for k, v in w['structural']:
                    substs[B(k)] = None if v is None else B(v)
                want = w['model']
            else:
                if not exprs:
                    continue
                substs = {exprs[-1].id: B('marker')}
                want = items[:-1] + ['marker']
            for entry in ('ddmin', 'hierarchical'):
                del seen[:]
                simp = Simp(dict(substs), [])
                if entry == 'ddmin':
                    ddmin._worker(ddmin.Task(i, pickle.dumps(exprs),
                                             pickle.dumps([simp])))
                else:
                    consumer.check(hier.Task(i, 'pipeline',
                                             pickle.dumps(exprs),
                                             pickle.dumps(simp), None))
                got = refmodel.to_nested_list(seen[-1]) if seen else None
                # declarations are not replayed: compare modulo them
                if got != want and not (last and w.get('mode') == 'decls'):
                    res.violation(f'pipeline-result-differs:{entry}',
                                  f'sent {items!r}, checked {got!r}', {})
    finally:
        checker.check_exprs = orig


def replay(data):
    from vlib import dd
    ns = dd.load()
    res = common.ShardResult()
    for c in data['cases']:
        w = c['witness']
        if 'history' in w:
            replay_pipeline(ns, res, w)
            continue
        if str(data.get('key', '')).startswith('alternatives'):
            alternatives(ns, res, common.rng('c11-replay'), 400)
            continue
        if str(data.get('key', '')).startswith('adopted-history'):
            adopted_histories(ns, res, common.rng('c11-replay'), 200)
            continue
        if 'rules' in w and 'opts' in w:
            # timing-dependent: repeat the real run a few times
            from checks import c11_real
            from vlib import realrun, common as _c
            base = _c.scratch_dir('c11rr')
            for k in range(10):
                run = realrun.run_ddsmt(
                    os.path.join(base, f'r{k}'), w['input'], w['rules'],
                    opts=w['opts'],
                    launcher={'monitors': ['write'], 'write_text': True})
                c11_real.judge(res, run, w['input'], w)
                if res.violations:
                    break
            import shutil
            shutil.rmtree(base, ignore_errors=True)
            continue
        exprs = [refmodel.build(ns.Node, t) for t in w['input']]
        nodes = {str(p): n for n, p in all_nodes(exprs)}
        substs = {}
        id_map = {}
        B = lambda t: refmodel.build(ns.Node, t)  # noqa: E731
        for p, t in w['id_targets'].items():
            n = nodes[p]
            substs[n.id] = None if t is None else B(t)
            id_map[n.id] = t
        struct = [(k, v) for k, v in w['structural']]
        for k, v in struct:
            substs[B(k)] = None if v is None else B(v)
        fresh = [B(t) for t in w['fresh']]
        check_case(ns, res, exprs, substs, id_map, struct, fresh, w['mode'],
                   {}, single=w.get('single', False))
    for v in res.violations:
        print(v['key'], v['what'][:400])
    return 1 if res.violations else 0
