"""C09 part (ii): the acceptance rule in *real parallel runs*.  Part (i)
drives checker.check in one process; here every verdict that a worker of a
real run (-j 2..8, all strategies, delays) returns for a candidate is
compared with the documented rule applied to what the scripted command
answers for that very candidate (evaluated by the Python implementation of
the predicate language on the candidate as the tree states it).  A verdict
obtained from another candidate's file, a stale golden record or another
worker's answer shows as a disagreement."""
import os
import shutil

from vlib import common, realrun, workload


def make_case(r):
    script = workload.small_script(r, r.choice(['small', 'medium']))
    text = workload.render_with_noise(r, script.nested(), comments=False)
    if r.random() < 0.4:
        # characters outside ASCII early in the file (a comment line of a
        # benchmark header): the bytes the command is given still have to be
        # the whole candidate
        text = '; ' + ''.join(r.choice(['é', 'ß', '€', '→', 'Ω'])
                              for _ in range(r.randint(1, 5))) + '\n' + text
    rules, pred = workload.pick_spec(r, text, nclasses=r.choice([2, 3]))
    _, ex, out, err, _ = realrun.eval_spec(rules, text)
    golden = (ex, out, err)
    cmp_opts = workload.comparison_options(r, golden)
    cc_rules = None
    cc_ignore = False
    if r.random() < 0.3:
        cc_rules, _ = workload.pick_spec(r, text, families=['has', 'count',
                                                            'ntok', 'all'])
        if r.random() < 0.4:
            cc_ignore = True
    strat = r.choice(['ddmin', 'ddmin', 'hybrid', 'hierarchical'])
    j = r.choice([2, 4, 4, 8])
    opts = ['--strategy', strat, '-j', str(j), '--timeout', '20'] + cmp_opts
    if cc_ignore:
        opts.append('--ignore-output-cc')
    # the command is slow to start (as a solver is): the candidate file is
    # read some time after ddSMT wrote it
    delay = (r.randint(1, 1000), r.choice([2000, 8000, 20000]))
    inj = {'seed': r.randint(0, 10**6), 'prob': r.choice([0.01, 0.05]),
           'max_ms': 2} if r.random() < 0.5 else None
    desc = {'input': text, 'rules': rules, 'cc_rules': cc_rules,
            'opts': opts, 'delay': delay, 'inject': inj}
    return text, rules, cc_rules, cmp_opts, cc_ignore, opts, delay, inj, desc


def expected(rules, cc_rules, cmp, cc_ignore, golden, golden_cc, text):
    _, ex, out, err, _ = realrun.eval_spec(rules, text)
    ok = realrun.matches(golden, (ex, out, err), **cmp)
    if ok and cc_rules is not None:
        _, ex, out, err, _ = realrun.eval_spec(cc_rules, text)
        ok = realrun.matches(golden_cc, (ex, out, err),
                             ignore_out=cc_ignore, ignore_err=cc_ignore)
    return ok


def run_case(res, wd, case):
    text, rules, cc_rules, cmp_opts, cc_ignore, opts, delay, inj, desc = case
    cfg = {'monitors': ['check', 'exec'], 'check_text': True}
    if inj:
        cfg['delay'] = inj
    run = realrun.run_ddsmt(wd, text, rules, opts=opts, cc_spec=cc_rules,
                            delay=delay, launcher=cfg)
    res.count('evaluations')
    res.count('real_runs')
    if run.timed_out:
        res.count('runs_watchdog')
        return
    if run.rc != 0 or run.uncaught_traceback:
        res.count('real_runs_failed')
        return
    if any(e['ev'] == 'exec' and e.get('timed_out')
           and (e.get('timeout') or 0) >= 4.0 for e in run.events):
        # a run of the command exceeded a limit that was the right one
        # (>= 4 s for millisecond commands, 1.5 x (1.7 s + 1 s) for the slow
        # cross check): the machine is overloaded, no verdict
        res.count('real_runs_with_a_timeout_skipped')
        return
    cmp = workload.parse_comparison(cmp_opts)
    _, ex, out, err, _ = realrun.eval_spec(rules, text)
    golden = (ex, out, err)
    golden_cc = None
    if cc_rules is not None:
        _, ex, out, err, _ = realrun.eval_spec(cc_rules, text)
        golden_cc = (ex, out, err)
    pids = set()
    for e in run.events:
        if e['ev'] != 'check':
            continue
        if 'text' not in e:
            res.count('verdicts_without_text')
            continue
        pids.add(e['pid'])
        want = expected(rules, cc_rules, cmp, cc_ignore, golden, golden_cc,
                        e['text'])
        res.count('real_verdicts_compared')
        res.count('real_verdicts_accept' if want else 'real_verdicts_reject')
        if bool(e['verdict']) != want:
            w = dict(desc)
            w['candidate'] = e['text'][:3000]
            w['verdict'] = e['verdict']
            w['same_file_seen'] = e['ld'] == e['td']
            res.violation(
                'real-run:verdict-differs-from-documented-rule',
                f'a worker of a real run (-j{opts[3]}) '
                f'{"accepted" if e["verdict"] else "rejected"} a candidate '
                f'for which the documented rule says '
                f'{"accept" if want else "reject"}; the file it was checked '
                f'in held {"the same" if e["ld"] == e["td"] else "OTHER"} '
                f'tokens afterwards', w)
            return
    res.cmax('max_checking_processes_in_a_run', len(pids))


def slow_cross_check_case():
    """A cross-check command that needs 1.7 s beside a fast main command,
    no explicit limits: candidates that behave like both golden runs are
    accepted (the cross check is compared with - and timed by - its *own*
    golden run)."""
    text = '(declare-const a Int)\n(assert (> a 1))\n(check-sat)\n'
    rules = realrun.simple_spec('has:assert')
    cc_rules = [realrun.rule('all', 3, 'cc\n', 'cc err\n',
                             delay_us=1700000)]
    opts = ['--strategy', 'ddmin', '-j', '2', '--disable-all',
            '--erase-node']
    desc = {'input': text, 'rules': rules, 'cc_rules': cc_rules,
            'opts': opts, 'delay': None, 'inject': None,
            'slow_cross_check': True}
    return text, rules, cc_rules, [], False, opts, None, None, desc


def shard(args):
    res = common.ShardResult()
    r = common.rng('c09real', args['shard'])
    base = common.scratch_dir('c09r')
    try:
        if args['shard'] == 0:
            wd = os.path.join(base, 'slowcc')
            try:
                run_case(res, wd, slow_cross_check_case())
                res.count('slow_cross_check_cases')
            finally:
                shutil.rmtree(wd, ignore_errors=True)
        for i in range(args['n']):
            case = make_case(r)
            wd = os.path.join(base, f'r{i}')
            try:
                run_case(res, wd, case)
            finally:
                shutil.rmtree(wd, ignore_errors=True)
    finally:
        shutil.rmtree(base, ignore_errors=True)
    return res.to_dict()


def run(ctx):
    n = 3 if ctx.tier == 'quick' else 60
    shards = [{'shard': i, 'n': n} for i in range(common.NCPU)]
    results = common.run_shards('checks.c09_real', shards, timeout=3400)
    common.merge_shards(ctx, results)
    if ctx.counters.get('real_verdicts_compared', 0) < 100:
        ctx.inconclusive_because('too few verdicts of real runs compared')
    ctx.judge_watchdog('real_runs')
