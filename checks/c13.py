"""C13 - the working input is a tree: node identities are pairwise distinct.

(ii) API plane: nodes.reduplicate on generated DAGs with arbitrary sharing
     against an oracle (tokens unchanged, no repeated id afterwards, nodes
     whose whole subtree was unique keep their identity).
(i)  real runs (added by checks.c13 run() through vlib.realrun when
     available): invariant hook at TaskGenerator/Producer construction.
"""
import collections
import pickle
import random

from vlib import common, refmodel

LEVEL = 'exploration'

ALPHA = ['a', 'b', 'c', 'x', '+', 'f', '0']


def gen_dag(ns, r):
    """A list of Node trees with sharing: returns (exprs, shapes) where
    shapes names the kinds of sharing used."""
    shapes = set()
    pool = []  # previously built nodes available for re-use

    def mk(depth, bud):
        if pool and r.random() < 0.25:
            n = r.choice(pool)
            if r.random() < 0.2:
                # a different object carrying the same ids (what unpickling
                # a simplification in a worker produces)
                n = pickle.loads(pickle.dumps(n))
                shapes.add('same-ids-different-objects')
            if n.is_leaf():
                shapes.add('shared-leaf')
            elif len(n.data) == 0:
                shapes.add('shared-empty-list')
            else:
                shapes.add('shared-subtree')
            return n
        if depth <= 0 or bud[0] <= 0 or r.random() < 0.35:
            n = ns.Node(r.choice(ALPHA))
        else:
            k = min(r.choice([0, 0, 1, 2, 2, 3, 4]), bud[0])
            bud[0] -= k
            kids = [mk(depth - 1, bud) for _ in range(k)]
            n = ns.Node(*kids) if kids else ns.Node()
        pool.append(n)
        return n

    bud = [r.choice([6, 20, 60])]
    exprs = [mk(r.randint(0, 5), bud) for _ in range(r.randint(1, 5))]
    if r.random() < 0.3 and exprs:
        exprs.append(r.choice(exprs))
        shapes.add('shared-toplevel-entry')
    return exprs, shapes


def id_counts(exprs):
    c = collections.Counter()
    stack = list(exprs)
    while stack:
        n = stack.pop()
        c[n.id] += 1
        if not isinstance(n.data, str):
            stack.extend(n.data)
    return c


def check_redup(ns, res, exprs, shapes, origin):
    res.count('evaluations')
    before_nested = refmodel.to_nested_list(exprs)
    counts = id_counts(exprs)
    ndup = sum(1 for v in counts.values() if v > 1)
    res.cmax('max_multiplicity', max(counts.values()) if counts else 0)
    if ndup:
        res.count('dags_with_repeated_ids')
    else:
        res.count('dags_already_trees')
    for s in shapes:
        res.add_set('sharing_shapes', s)
    out = ns.nodes.reduplicate(exprs)
    witness = {
        'input': before_nested,
        'shapes': sorted(shapes),
        'repeated_ids': ndup,
        'origin': origin
    }
    after_nested = refmodel.to_nested_list(out)
    if after_nested != before_nested:
        res.violation('reduplicate-changes-tokens',
                      'reduplicate changed the rendered tokens', witness)
        return None
    after = id_counts(out)
    rep = [i for i, v in after.items() if v > 1]
    if rep:
        # known mechanism: sharing is only noticed through changed leaves,
        # so shared subtrees without any leaf (e.g. ``()``) keep their id
        def leafless(n):
            st = [n]
            while st:
                x = st.pop()
                if isinstance(x.data, str):
                    return False
                st.extend(x.data)
            return True

        only_empty = True
        stack = list(out)
        while stack:
            n = stack.pop()
            if after[n.id] > 1 and not leafless(n):
                only_empty = False
            if not isinstance(n.data, str):
                stack.extend(n.data)
        key = ('reduplicate-shared-empty-list'
               if only_empty else 'reduplicate-leaves-repeated-id')
        res.violation(key,
                      f'{len(rep)} node id(s) still occur more than once '
                      f'after reduplicate', witness)
    # identity of nodes whose whole subtree was unique
    def unique_subtree(n):
        stack = [n]
        while stack:
            x = stack.pop()
            if counts[x.id] != 1:
                return False
            if not isinstance(x.data, str):
                stack.extend(x.data)
        return True

    kept = set()
    stack = list(out)
    while stack:
        n = stack.pop()
        kept.add(id(n))
        if not isinstance(n.data, str):
            stack.extend(n.data)
    stack = list(exprs)
    while stack:
        n = stack.pop()
        if unique_subtree(n):
            res.count('identity_checks')
            if id(n) not in kept:
                res.violation(
                    'reduplicate-replaces-unique-node',
                    'a node whose whole subtree was unique lost its identity',
                    witness)
                break
        elif not isinstance(n.data, str):
            stack.extend(n.data)
    return out


def rebuild(ns, node, path, new):
    """A copy of ``node`` in which the descendant at ``path`` is ``new``:
    new nodes along the path, all other subtrees are the same objects (what
    nodes.substitute does)."""
    if not path:
        return new
    kids = list(node.data)
    kids[path[0]] = rebuild(ns, kids[path[0]], path[1:], new)
    return ns.Node(*kids) if kids else ns.Node()


def paths_of(node, prefix=()):
    out = [prefix]
    if not isinstance(node.data, str):
        for i, c in enumerate(node.data):
            out += paths_of(c, prefix + (i, ))
    return out


def at(node, path):
    for i in path:
        node = node.data[i]
    return node


def history(ns, res, r, origin):
    """reduplicate as a run uses it: called again and again in one process,
    each time on the previous result with one command rebuilt - most
    commands are the *same objects* as in the previous call.  The dangerous
    step puts a subtree of an untouched command into another command
    (inlining a defined function, substituting a variable by a term)."""
    def fresh_tree(depth, bud):
        if depth <= 0 or bud[0] <= 0 or r.random() < 0.3:
            return ns.Node(r.choice(ALPHA))
        k = min(r.choice([1, 2, 2, 3]), bud[0])
        bud[0] -= k
        return ns.Node(*[fresh_tree(depth - 1, bud) for _ in range(k)])

    cur = [fresh_tree(r.randint(1, 4), [r.choice([6, 15])])
           for _ in range(r.randint(2, 6))]
    trail = []
    for step in range(r.randint(2, 7)):
        kind = r.choice(['across', 'across', 'across', 'inside', 'erase',
                         'leaf', 'toplevel'])
        if len(cur) < 2 and kind in ('across', 'erase', 'toplevel'):
            kind = 'leaf'
        nxt = list(cur)
        shapes = {f'history-{kind}'}
        if kind == 'across':
            i, j = r.sample(range(len(cur)), 2)
            src = at(cur[i], r.choice(paths_of(cur[i])))
            nxt[j] = rebuild(ns, cur[j], r.choice(paths_of(cur[j])), src)
        elif kind == 'inside':
            j = r.randrange(len(cur))
            ps = paths_of(cur[j])
            src = at(cur[j], r.choice(ps))
            dst = r.choice(ps)
            # not into its own subtree (a tree cannot contain itself)
            srcp = [p for p in ps if at(cur[j], p) is src][0]
            if dst[:len(srcp)] == srcp:
                dst = ()
                src = ns.Node(src, src) if r.random() < 0.5 else src
            nxt[j] = rebuild(ns, cur[j], dst, src)
        elif kind == 'erase':
            del nxt[r.randrange(len(nxt))]
        elif kind == 'toplevel':
            i, j = r.sample(range(len(cur)), 2)
            nxt[j] = cur[i]
        else:
            j = r.randrange(len(cur))
            nxt[j] = rebuild(ns, cur[j], r.choice(paths_of(cur[j])),
                             ns.Node(r.choice(ALPHA)))
        trail.append(kind)
        nviol = len(res.violations)
        res.count('history_steps')
        out = check_redup(ns, res, nxt, shapes,
                          f'{origin}:step{step}:{"+".join(trail)}')
        if len(res.violations) > nviol or out is None:
            return
        cur = out


def shard(args):
    from vlib import dd
    ns = dd.load()
    res = common.ShardResult()
    r = common.rng('c13', args['shard'])
    for i in range(args['n'] // 8):
        # own generator per history, so that one can be replayed
        hs = r.getrandbits(48)
        history(ns, res, random.Random(hs), f'history:{hs}')
    for i in range(args['n']):
        exprs, shapes = gen_dag(ns, r)
        check_redup(ns, res, exprs, shapes, f'{args["shard"]}:{i}')
        res.add_distinct(
            common.digest(
                repr((refmodel.to_nested_list(exprs),
                      sorted(id_counts(exprs).values())))))
        if i < 2:
            res.sample({
                'dag': refmodel.to_nested_list(exprs),
                'sharing': sorted(shapes)
            })
    return res.to_dict()


def run(ctx):
    n = 4000 if ctx.tier == 'quick' else 150000
    shards = [{'shard': i, 'n': n} for i in range(common.NCPU)]
    results = common.run_shards('checks.c13', shards, timeout=3000)
    common.merge_shards(ctx, results)
    try:
        from checks import c13_real
    except ImportError:
        c13_real = None
    if c13_real:
        c13_real.run(ctx)
    ctx.rule = (
        'API part: random DAGs of Nodes (shared leaves, shared subtrees, '
        'shared empty lists, sharing across top-level entries, distinct '
        'objects carrying equal ids as produced by unpickling) handed to '
        'nodes.reduplicate; histories of calls in one process (each input '
        'is the previous result with one command rebuilt: a subtree of an '
        'untouched command inserted into another one, sharing inside one '
        'command, a repeated command, erasure, a new leaf); distinct non-trivial = distinct (structure, id '
        'multiplicity profile)' +
        ('; real-run part: id-uniqueness hook at every TaskGenerator / '
         'Producer construction' if c13_real else ''))
    if ctx.counters.get('dags_with_repeated_ids', 0) == 0:
        ctx.inconclusive_because('no DAG with repeated ids was generated')
    for s in ('shared-leaf', 'shared-subtree', 'shared-empty-list',
              'shared-toplevel-entry', 'same-ids-different-objects',
              'history-across', 'history-inside', 'history-toplevel'):
        if s not in ctx.extra.get('sharing_shapes', ()):
            ctx.inconclusive_because(f'sharing shape {s} never generated')


def replay(data):
    from vlib import dd
    ns = dd.load()
    res = common.ShardResult()
    for c in data['cases']:
        w = c['witness']
        if str(w.get('origin', '')).startswith('history:'):
            hs = int(w['origin'].split(':')[1])
            history(ns, res, random.Random(hs), f'history:{hs}')
            continue
        # rebuild with maximal sharing of equal subtrees
        memo = {}

        def mk(t):
            k = repr(t)
            if k not in memo:
                memo[k] = ns.Node(t) if isinstance(t, str) else (ns.Node(
                    *[mk(x) for x in t]) if t else ns.Node())
            return memo[k]

        check_redup(ns, res, [mk(t) for t in w['input']], set(w['shapes']),
                    'replay')
    for v in res.violations:
        print(v['key'], v['what'][:300])
    return 1 if res.violations else 0
