"""C17 - rewrites documented as identities preserve sort and value.

For the mutators the statement enumerates, every proposal made for a *term*
position of a well-sorted instance is judged by an independent evaluator:
original subterm and replacement must denote the same (sort-tagged) value
under every assignment of the free symbols (exhaustive for small domains,
sampled otherwise), in the scope of the enclosing binders.
"""
import itertools

from vlib import common, evalsmt, gen_smt, refmodel, refreader

LEVEL = 'exploration'

IDENTITY_MUTATORS = {
    'mutators_bv': [
        'BVNormalizeConstants', 'BVEvalExtend', 'BVExtractConstants',
        'BVExtractZeroExtend', 'BvMergeExtend', 'BVMergeReducedBW',
        'BVDoubleNegation', 'BVReflexiveNand', 'BVIteToBVComp', 'BVElimBVComp'
    ],
    'mutators_boolean': [
        'BoolDoubleNegation', 'BoolDeMorgan', 'BoolEliminateFalseEquality',
        'BoolXOREliminateBinary', 'BoolNegateQuantifier',
        'BoolEliminateImplication'
    ],
    'mutators_arithmetic': ['ArithmeticNegateRelation'],
    'mutators_smtlib': ['InlineDefinedFuns', 'LetSubstitution'],
    'mutators_datatypes': ['RemoveDatatypeIdentity'],
    'mutators_fp': ['FPShortSort'],
}
# rewrites the statement restricts to their binary form
BINARY_ONLY = {
    'BoolEliminateImplication': '=>',
    'ArithmeticNegateRelation': None,  # the relation under 'not'
    'BoolEliminateFalseEquality': '=',
    'BVElimBVComp': '=',
    'BoolXOREliminateBinary': 'xor',
}

EVAL_THEORIES = ['ints', 'reals', 'bv', 'dt', 'uf', 'let', 'quant', 'defs',
                 'annot']


# ---------------------------------------------------------------------------
# instance generation
from vlib.shapes import inject_shapes  # noqa: E402,F401


TEMPLATES = [
    # ite over one and zero of one bit and of more bits (bvcomp has one bit)
    '''(declare-const a (_ BitVec 8))
(declare-const b (_ BitVec 8))
(declare-const r (_ BitVec 8))
(declare-const s (_ BitVec 2))
(declare-const o (_ BitVec 1))
(assert (= o (ite (= a b) #b1 #b0)))
(assert (= o (ite (= a b) (_ bv1 1) (_ bv0 1))))
(assert (= r (ite (= a b) #x01 #x00)))
(assert (= r (ite (= a b) (_ bv1 8) (_ bv0 8))))
(assert (= s (ite (= a b) #b01 #b00)))
(assert (= s (ite (= r b) #b01 (_ bv0 2))))
(assert (= o (ite (= a b) #b0 #b1)))
''',
    # defined functions whose actual arguments mention formal parameter names
    '''(declare-const k Int)
(define-fun f ((a Int) (b Int)) Int (- (* a 2) b))
(define-fun g ((a Int) (b Int)) Int (f (+ a 1) (* a b)))
(define-fun h ((a Int) (b Int)) Int (f b a))
(assert (> (g k 3) (h 2 k)))
''',
    '''(declare-const u (_ BitVec 4))
(define-fun f ((a (_ BitVec 4)) (b (_ BitVec 4))) (_ BitVec 4) (bvsub a (bvshl b #b0001)))
(define-fun g ((b (_ BitVec 4)) (a (_ BitVec 4))) (_ BitVec 4) (f (bvadd a b) (f b a)))
(assert (= (g u #b0011) (f u u)))
''',
    # legal shadowing in let
    '''(declare-const x Int)
(declare-const y Int)
(assert (> (let ((x (+ x 1))) (* x 2)) y))
(assert (= (let ((x y) (y 5)) (+ x y)) 0))
(assert (< (let ((x 1)) (let ((x (+ x 1)) (z x)) (+ x z))) 9))
''',
    '''(declare-const p Bool)
(declare-const q Bool)
(assert (let ((p (not p)) (q p)) (and p (let ((p q)) (or p q)))))
(assert (let ((a p)) (forall ((p Bool)) (or a p))))
''',
    # actual arguments that would be captured by a binder in the body
    '''(declare-const k Int)
(declare-const p Bool)
(define-fun f ((a Int)) Int (let ((k 1)) (+ a k)))
(define-fun h ((a Bool)) Bool (forall ((p Bool)) (or a p)))
(assert (> (f k) 0))
(assert (> (f (+ k 2)) (f 1)))
(assert (h p))
(assert (h (not p)))
''',
    # ... in the second / third argument, at the top and nested, for let
    # and quantifier binders, with several bound names
    '''(declare-const k Int)
(declare-const y Int)
(declare-const z Int)
(define-fun f ((a Int) (b Int)) Int (let ((y 1)) (+ (* 2 a) b y)))
(define-fun g ((a Int) (b Int) (c Int)) Int (let ((k 2) (z (+ a 1))) (- (+ a k) (* b z) c)))
(assert (> (f z y) 0))
(assert (> (f z (+ y 5)) (f 1 (* 2 (- y)))))
(assert (= (g 1 2 k) (g k 1 2)))
(assert (< (g 0 (+ z 1) 3) (g 1 1 (* (+ z k) 2))))
''',
    '''(declare-const p Bool)
(declare-const q Bool)
(define-fun h ((a Bool) (b Bool)) Bool (forall ((p Bool)) (or a (and b p))))
(define-fun e ((a Bool) (b Bool) (c Bool)) Bool (exists ((q Bool) (p Bool)) (and (or a q) (=> b p) c)))
(assert (h q p))
(assert (h q (not p)))
(assert (e p true false))
(assert (e true q (and p q)))
(assert (e false true (not (=> q false))))
''',
    # operands whose width ddSMT cannot infer (an operator missing from its
    # tables, an uninterpreted function) below concat, under the extraction
    # and extension rewrites that compute with widths
    '''(declare-const a (_ BitVec 2))
(declare-const b (_ BitVec 2))
(declare-const c (_ BitVec 2))
(declare-fun uf ((_ BitVec 2)) (_ BitVec 2))
(assert (= ((_ extract 4 2) ((_ zero_extend 3) (concat a (bvlshr b c)))) #b000))
(assert (= ((_ extract 3 1) ((_ zero_extend 3) (concat a (uf b)))) #b000))
(assert (= ((_ zero_extend 1) ((_ zero_extend 2) (concat a (bvlshr b c)))) #b0000000))
(assert (= ((_ extract 5 3) ((_ zero_extend 2) (concat (bvlshr b c) a))) #b000))
(assert (= ((_ extract 6 1) ((_ zero_extend 3) (concat a (uf b) c))) #b000000))
(assert (= ((_ extract 2 0) ((_ sign_extend 3) (concat a (bvlshr b c)))) #b000))
''',
    # previous bit-width reductions
    '''(declare-const __w (_ BitVec 2))
(define-fun _w () (_ BitVec 5) ((_ zero_extend 3) __w))
(define-fun w () (_ BitVec 8) ((_ zero_extend 3) _w))
(assert (= w #x03))
''',
]


# ---------------------------------------------------------------------------
# judging
def node_at(exprs, path):
    n = exprs[path[0]]
    for i in path[1:]:
        n = n.data[i]
    return n


def term_paths(nested):
    """Term positions of a script given only as nested lists (templates):
    every position inside an assert / define-fun body that is not a head
    symbol, binder, sort, index or attribute."""
    out = []

    def walk(t, path):
        out.append(path)
        if isinstance(t, str) or not t:
            return
        h = t[0]
        if h == 'let':
            for i, (n, b) in enumerate(t[1]):
                walk(b, path + (1, i, 1))
            walk(t[2], path + (2, ))
        elif h in ('forall', 'exists'):
            walk(t[2], path + (2, ))
        elif h == '!':
            walk(t[1], path + (1, ))
        elif h == '_':
            return
        else:
            for i, x in enumerate(t[1:], 1):
                walk(x, path + (i, ))

    for ci, c in enumerate(nested):
        if c[0] == 'assert':
            walk(c[1], (ci, 1))
        elif c[0] == 'define-fun':
            walk(c[4], (ci, 4))
    return out


def scopes_at(nested, path, world, env, r, nsamples):
    """Yields scope dicts (bound name -> value) for the position ``path``:
    let bindings are evaluated, quantified variables and define-fun
    parameters range over their domain (exhaustively when small, else
    sampled)."""
    cmd = nested[path[0]]
    choice_vars = []  # (name, sort)
    steps = []  # ('let', bindings) or ('vars', [(name, sort)])
    t = cmd
    p = path[1:]
    if cmd[0] == 'define-fun':
        steps.append(('vars', [(a[0], a[1]) for a in cmd[2]]))
    i = 0
    while i < len(p):
        idx = p[i]
        if isinstance(t, list) and t and t[0] == 'let' and idx == 2:
            steps.append(('let', t[1]))
        elif isinstance(t, list) and t and t[0] in ('forall',
                                                    'exists') and idx == 2:
            steps.append(('vars', [(a[0], a[1]) for a in t[1]]))
        t = t[idx]
        i += 1
    var_lists = [v for k, v in steps if k == 'vars']
    allvars = [x for vl in var_lists for x in vl]
    doms = [world.domain(s, 16) for _, s in allvars]
    total = 1
    for d in doms:
        total = total * len(d) if d is not None and total else 0
    if allvars and total and total <= nsamples:
        combos = itertools.product(*doms)
        exhaustive = True
    else:
        combos = (tuple(world.sample(s, r) for _, s in allvars)
                  for _ in range(nsamples if allvars else 1))
        exhaustive = not allvars
    for combo in combos:
        vals = dict(zip([n for n, _ in allvars], combo))
        scope = {}
        for kind, data in steps:
            if kind == 'vars':
                for n, _ in data:
                    scope[n] = vals[n]
            else:
                new = dict(scope)
                for n, b in data:
                    new[n] = evalsmt.evaluate(b, env, scope)
                scope = new
        yield scope, exhaustive


def strip_comments(x):
    """A comment is not part of a term."""
    if isinstance(x, list):
        return [strip_comments(y) for y in x
                if not (isinstance(y, str) and y.startswith(';'))]
    return x


def judge(ns, res, nested, exprs, world, r, mname, m, path, node, origin,
          nassign, filtered=False, commented=False):
    """All proposals of mutator m at the term position ``path``."""
    try:
        if not filtered and hasattr(m, 'filter') and not m.filter(node):
            return
        props = list(m.mutations(node))
    except Exception as e:  # noqa
        res.count('proposals_with_exceptions')
        res.add_set('exceptions', f'{mname}:{type(e).__name__}')
        return
    orig = strip_comments(refmodel.to_nested(node))
    if mname in BINARY_ONLY:
        rel = orig[1] if mname == 'ArithmeticNegateRelation' else orig
        if isinstance(rel, list) and len(rel) != 3:
            res.count('nary_instances_not_judged')
            return
    for simp in props:
        if list(simp.substs.keys()) != [node.id] or simp.fresh_vars:
            res.count('proposals_not_local')
            continue
        rep_node = simp.substs[node.id]
        if rep_node is None:
            continue
        rep = strip_comments(refmodel.to_nested(rep_node))
        res.count('evaluations')
        res.count(f'judged_{mname}')
        if commented:
            res.count('judged_with_a_comment_inside_the_term')
        free = evalsmt.free_consts(orig, world)
        try:
            free = free | evalsmt.free_consts(rep, world)
        except Exception:  # noqa  (an ill-formed replacement; judged below)
            pass
        consts = sorted(x for x in free if x in world.consts)
        ufs = [x for x in free if x in world.funs]
        doms = [world.domain(world.consts[c], 4096) for c in consts]
        total = 1
        for d in doms:
            total = total * len(d) if d is not None and total else 0
        exhaustive = bool(total) and total <= 4096 and not ufs
        if exhaustive:
            assigns = (dict(zip(consts, combo))
                       for combo in itertools.product(*doms))
            res.count('exhaustive_instances')
        else:
            assigns = (None for _ in range(nassign))
            res.count('sampled_instances')
        bad = None
        nev = 0
        for a in assigns:
            env = evalsmt.Env(world, r, a)
            try:
                for scope, _ in scopes_at(nested, path, world, env, r, 8):
                    try:
                        v0 = evalsmt.evaluate(orig, env, scope)
                    except evalsmt.Unsupported:
                        res.count('original_not_evaluable')
                        v0 = None
                        break
                    try:
                        v1 = evalsmt.evaluate(rep, env, scope)
                    except evalsmt.Unsupported as e:
                        v1 = ('ILL-FORMED', str(e))
                    except Exception as e:  # noqa
                        v1 = ('ILL-FORMED', f'{type(e).__name__}: {e}')
                    nev += 1
                    if v0 != v1:
                        bad = (dict(env.values), dict(scope), v0, v1)
                        break
            except evalsmt.Unsupported:
                res.count('scope_not_evaluable')
                break
            if bad or v0 is None:
                break
            if nev > 3000:
                break
        res.count('assignments_evaluated', nev)
        if bad:
            values, scope, v0, v1 = bad
            res.violation(
                classify(mname, orig, rep, v0, v1),
                f'{mname} rewrites {refreader.render([orig]).strip()} to '
                f'{refreader.render([rep]).strip()}: values {v0} vs {v1} '
                f'under {values} {scope}', {
                    'mutator': mname,
                    'script': refreader.render(nested),
                    'path': list(path),
                    'original': orig,
                    'replacement': rep,
                    'assignment': {k: str(v)
                                   for k, v in values.items()},
                    'scope': {k: str(v)
                              for k, v in scope.items()},
                    'origin': origin
                })


def classify(mname, orig, rep, v0, v1):
    if mname == 'LetSubstitution' and v1[0] != 'ILL-FORMED':
        return 'let-substitution-capture'
    if mname == 'InlineDefinedFuns':
        return 'inline-defined-fun'
    what = 'sort' if (v1[0] == 'ILL-FORMED' or v0[0] != v1[0] or
                      (v0[0] == 'BV' and v0[1] != v1[1])) else 'value'
    return f'{mname}:{what}'


def judge_fp_short_sort(ns, res, r):
    """FPShortSort rewrites a sort: the abbreviation must be the same sort."""
    m = ns.mutators_fp.FPShortSort()
    for e, s in itertools.product(range(2, 17), [5, 11, 24, 53, 113, 8, 3]):
        node = ns.Node('_', 'FloatingPoint', str(e), str(s))
        res.count('evaluations')
        res.count('judged_FPShortSort')
        if not m.filter(node):
            continue
        for simp in m.mutations(node):
            rep = refmodel.to_nested(simp.substs[node.id])
            if gen_smt.sort_from_nested(rep) != ('FP', e, s):
                res.violation(
                    'FPShortSort:sort',
                    f'(_ FloatingPoint {e} {s}) abbreviated as {rep}', {
                        'original': refmodel.to_nested(node),
                        'replacement': rep
                    })


def mutators(ns):
    out = []
    for modname, names in IDENTITY_MUTATORS.items():
        mod = getattr(ns, modname)
        for n in names:
            if n != 'FPShortSort':
                out.append((n, getattr(mod, n)()))
    return out


def check_script(ns, res, r, nested, paths, origin, nassign):
    text = refreader.render(nested)
    exprs = list(ns.nodeio.parse_smtlib(text))
    if refmodel.to_nested_list(exprs) != nested:
        raise AssertionError('harness: parse of rendered script differs')
    ns.smtlib.collect_information(exprs)
    world = evalsmt.World(nested)
    muts = mutators(ns)
    if r.random() < 0.5:
        # the calling pattern of strategy ddmin: a mutator instance is first
        # asked to filter all nodes of a subset and only then for the
        # mutations of each of them (hierarchical asks node by node)
        res.count('scripts_in_ddmin_calling_pattern')
        for mname, m in muts:
            accepted = []
            for path in paths:
                node = node_at(exprs, path)
                try:
                    if not hasattr(m, 'filter') or m.filter(node):
                        accepted.append((path, node))
                except Exception as e:  # noqa
                    res.count('proposals_with_exceptions')
                    res.add_set('exceptions', f'{mname}:{type(e).__name__}')
            for path, node in accepted:
                judge(ns, res, nested, exprs, world, r, mname, m,
                      tuple(path), node, origin, nassign, filtered=True)
    else:
        for path in paths:
            node = node_at(exprs, path)
            for mname, m in muts:
                judge(ns, res, nested, exprs, world, r, mname, m,
                      tuple(path), node, origin, nassign)
    # BVMergeReducedBW rewrites a definition: compare the defined values
    m = ns.mutators_bv.BVMergeReducedBW()
    for ci, c in enumerate(nested):
        if c[0] != 'define-fun':
            continue
        node = exprs[ci]
        try:
            if not m.filter(node):
                continue
            props = list(m.mutations(node))
        except Exception as e:  # noqa
            res.add_set('exceptions', f'BVMergeReducedBW:{type(e).__name__}')
            continue
        for simp in props:
            rep = refmodel.to_nested(simp.substs[node.id])
            res.count('evaluations')
            res.count('judged_BVMergeReducedBW')
            for _ in range(8):
                env = evalsmt.Env(world, r)
                try:
                    v0 = evalsmt.evaluate(c[4], env, {})
                    v1 = evalsmt.evaluate(rep[4], env, {})
                except evalsmt.Unsupported as e:
                    v0, v1 = 0, ('ILL-FORMED', str(e))
                if v0 != v1 or rep[:4] != c[:4]:
                    res.violation(
                        'BVMergeReducedBW:value',
                        f'{c} rewritten to {rep}: {v0} vs {v1}', {
                            'script': text,
                            'original': c,
                            'replacement': rep
                        })
                    break


def check_commented(ns, res, r, nested, paths, origin, nassign, nvar=3):
    """Instances with a comment inside a term (the reader keeps it as a
    child): the term is the same term, so a rewrite of it or of the term
    above it still has to preserve sort and value."""
    import copy
    compound = [tuple(p) for p in paths
                if isinstance(gen_smt.get_path(nested, p), list)
                and len(gen_smt.get_path(nested, p)) >= 2 and len(p) >= 2]
    if not compound:
        return
    pathset = {tuple(p) for p in paths}
    world = evalsmt.World(nested)
    muts = mutators(ns)
    for _ in range(nvar):
        p = r.choice(compound)
        n2 = copy.deepcopy(nested)
        lst = gen_smt.get_path(n2, p)
        lst.insert(r.choice([1, 1, len(lst)]),
                   r.choice(['; c\n', ';\n', '; (a b) "c\n']))
        text = refreader.render(n2)
        exprs = list(ns.nodeio.parse_smtlib(text))
        if refmodel.to_nested_list(exprs) != n2:
            res.count('commented_variants_read_differently')
            continue
        try:
            ns.smtlib.collect_information(exprs)
        except Exception as e:  # noqa
            res.add_set('exceptions', f'collect:commented:{type(e).__name__}')
            continue
        res.count('commented_variants')
        for q in (p, p[:-1]):
            if q not in pathset:
                continue
            node = node_at(exprs, q)
            for mname, m in muts:
                judge(ns, res, strip_comments(n2), exprs, world, r, mname, m,
                      q, node, origin + ':commented', nassign,
                      commented=True)


def shard(args):
    from vlib import dd
    ns = dd.load()
    res = common.ShardResult()
    r = common.rng('c17', args['shard'])
    nassign = args.get('nassign', 40)
    if args['shard'] == 0:
        judge_fp_short_sort(ns, res, r)
        for ti, tpl in enumerate(TEMPLATES):
            nested = refreader.read(tpl)
            check_script(ns, res, r, nested, term_paths(nested),
                         f'template:{ti}', nassign)
            res.count('template_scripts')
    for i in range(args['n']):
        th = ['core'] + r.sample(EVAL_THEORIES, r.randint(2,
                                                          len(EVAL_THEORIES)))
        g = gen_smt.Gen(r, th, max_bv=r.choice([3, 4, 8]))
        script = g.script(nasserts=r.randint(1, 3), depth=r.randint(1, 3))
        extra = inject_shapes(g, r)
        # declarations made while injecting must precede the asserts
        cmds = [c for c in script.cmds]
        decl_done = {id(c) for c in cmds}
        new_decls = [c for c in g.commands if id(c) not in decl_done]
        first_assert = next(
            (k for k, c in enumerate(cmds)
             if isinstance(c, gen_smt.Cmd) and c.items[0] == 'assert'),
            len(cmds))
        cmds = cmds[:first_assert] + new_decls + [
            gen_smt.Cmd(['assert', t]) for t in extra
        ] + cmds[first_assert:]
        script = gen_smt.Script(cmds)
        nested = script.nested()
        paths = [p for p, _ in script.positions()]
        check_script(ns, res, r, nested, paths, f'{args["shard"]}:{i}',
                     nassign)
        if i % 2 == 0:
            check_commented(ns, res, r, nested, paths,
                            f'{args["shard"]}:{i}', nassign)
        res.count('scripts')
        res.add_distinct(common.digest(refreader.render(nested)))
        if i < 1:
            res.sample({'script': refreader.render(nested)[:1500]})
    return res.to_dict()


def run(ctx):
    n = 60 if ctx.tier == 'quick' else 20000
    shards = [{'shard': i, 'n': n, 'nassign': 30 if ctx.tier == 'quick' else
               100} for i in range(common.NCPU)]
    results = common.run_shards('checks.c17', shards, timeout=3400)
    common.merge_shards(ctx, results)
    if ctx.counters.get('judged_with_a_comment_inside_the_term', 0) == 0:
        ctx.inconclusive_because('no instance with a comment inside the term '
                                 'was judged')
    # real-run part: function inlining in a real run answers from symbol
    # tables that must be those of the current input
    from checks import c17_real
    c17_real.run(ctx, 'defs')
    ctx.rule = (
        'gen_smt scripts over Core/Ints/Reals/BV/datatypes/UF/let/'
        'quantifiers/define-fun plus injected instances of every shape the '
        'enumerated identity mutators accept (all constant notations, widths '
        '1..64, index values) plus hand-written templates with name '
        'coincidences (arguments mentioning formal parameter names, let '
        'shadowing); evaluations = judged (subterm, replacement) pairs; '
        'distinct non-trivial = distinct generated scripts (each has >= 2 '
        'judged pairs by construction of the injected shapes); real-run '
        'part: at every point where the main thread starts generating '
        'simplifications for an input (TaskGenerator construction and '
        'sequential task generation, Producer construction) the definition '
        'that would be inlined for each defined function is compared with '
        'the definition in that input')
    ctx.assumptions = [
        'vlib.evalsmt is the value oracle (cross-checked against z3 in the '
        'self-test)',
        'only proposals whose target is a term position are judged; n-ary '
        'instances of rewrites documented as binary are not judged',
        'division by zero etc. are interpreted by one fixed total function '
        'on both sides'
    ]
    for names in IDENTITY_MUTATORS.values():
        for n in names:
            if ctx.counters.get(f'judged_{n}', 0) == 0:
                ctx.inconclusive_because(f'no instance judged for {n}')


def replay(data):
    from vlib import dd
    ns = dd.load()
    res = common.ShardResult()
    r = common.rng('c17-replay')
    for c in data['cases']:
        w = c['witness']
        if 'script' not in w or 'path' not in w:
            continue
        nested = refreader.read(w['script'])
        check_script(ns, res, r, nested, [tuple(w['path'])], 'replay', 100)
    for v in res.violations:
        print(v['key'], v['what'][:500])
    return 1 if res.violations else 0
