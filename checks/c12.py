"""C12 - equality, hashing, copying, pickling and traversal agree with
structure.

Oracle: nested-list model (vlib.refmodel) vs. the real ddsmt.nodes API,
in-process and through a real fork-based multiprocessing pool.
"""
import copy
import multiprocessing
import pickle

from vlib import common, refmodel

LEVEL = 'exploration'
_KEEP = []

LEAVES = [
    'a', 'b', 'x', 'y', '0', '1', '', ' ', 'é', 'ß∀', '"s t"', '|q r|', '(',
    ')', 'L', '\x00', 'declare-const', 'ab', 'ba', '\U0001F600', '; c\n',
    'x' * 300
]


def rand_leaf(r):
    if r.random() < 0.15:
        n = r.randint(0, 6)
        return ''.join(
            chr(r.choice([r.randint(32, 126),
                          r.randint(0xa0, 0x2fff),
                          r.randint(0x10000, 0x10fff)])) for _ in range(n))
    return r.choice(LEAVES)


def rand_tree(r, depth, width, budget=None):
    """Random nested tree with at most ~300 nodes."""
    if budget is None:
        budget = [300]
    if depth <= 0 or budget[0] <= 0 or r.random() < 0.3:
        return rand_leaf(r)
    n = min(r.choice([0, 1, 1, 2, 2, 3, 3, width]), budget[0])
    budget[0] -= n
    return [rand_tree(r, depth - 1, width, budget) for _ in range(n)]


def perturb(r, t):
    """A near-equal variant of nested tree t and the relation name."""
    t = copy.deepcopy(t)
    paths = []

    def rec(x, p):
        paths.append(p)
        if isinstance(x, list):
            for i, c in enumerate(x):
                rec(c, p + (i, ))

    rec(t, ())
    p = r.choice(paths)

    def get(p):
        x = t
        for i in p:
            x = x[i]
        return x

    def put(p, v):
        nonlocal t
        if not p:
            t = v
            return
        x = t
        for i in p[:-1]:
            x = x[i]
        x[p[-1]] = v

    x = get(p)
    kind = r.choice([
        'leaf-changed', 'child-appended', 'child-removed', 'leaf-to-list',
        'list-to-leaf', 'reordered', 'identical', 'prefix', 'nested-one-more'
    ])
    if kind == 'identical':
        return t, kind
    if kind == 'leaf-changed':
        if isinstance(x, str):
            put(p, x + 'q')
        else:
            put(p, x + ['q'])
            kind = 'child-appended'
    elif kind == 'child-appended':
        put(p, (x if isinstance(x, list) else [x]) + [rand_leaf(r)])
    elif kind == 'child-removed':
        if isinstance(x, list) and x:
            y = list(x)
            del y[r.randrange(len(y))]
            put(p, y)
        else:
            put(p, [])
    elif kind == 'leaf-to-list':
        put(p, [x])
    elif kind == 'list-to-leaf':
        if isinstance(x, list) and len(x) == 1 and isinstance(x[0], str):
            put(p, x[0])
        else:
            put(p, 'z')
    elif kind == 'reordered':
        if isinstance(x, list) and len(x) > 1:
            y = list(x)
            y.reverse()
            put(p, y)
    elif kind == 'prefix':
        if isinstance(x, list) and x:
            put(p, x[:len(x) // 2])
    elif kind == 'nested-one-more':
        put(p, [[x]])
    return t, kind


def build_shared(ns, r, tree):
    """Build a Node DAG for nested ``tree`` re-using one Node object for
    structurally equal subtrees with probability 1/2."""
    memo = {}

    def rec(t):
        # returns (node, structural key)
        if isinstance(t, str):
            key = t
            kids = None
        else:
            built = [rec(c) for c in t]
            kids = [b[0] for b in built]
            key = tuple(b[1] for b in built)
        if key in memo and r.random() < 0.5:
            return memo[key], key
        if kids is None:
            n = ns.Node(t)
        else:
            n = ns.Node(*kids) if kids else ns.Node()
        memo[key] = n
        return n, key

    return rec(tree)[0]


def ids_of(n):
    out = []
    stack = [n]
    while stack:
        x = stack.pop()
        out.append(x.id)
        if not isinstance(x.data, str):
            stack.extend(reversed(x.data))
    return out


def hashes_of(n):
    out = []
    stack = [n]
    while stack:
        x = stack.pop()
        out.append(x.hash)
        if not isinstance(x.data, str):
            stack.extend(reversed(x.data))
    return out


# executed inside pool workers -------------------------------------------
def _worker_echo(node):
    import os
    return (os.getpid(), refmodel.to_nested(node), ids_of(node),
            hashes_of(node), hash(node), node)


def _worker_echo_flat(node):
    # no nested list in the reply: pickling one 5000 levels deep would
    # exhaust the *harness's* recursion limit
    return (ids_of(node), hash(node), node)


def check_pair(ns, res, r, ta, tb, kind):
    a = refmodel.build(ns.Node, ta)
    b = refmodel.build(ns.Node, tb)
    want = ta == tb
    res.count('evaluations')
    res.count('pairs')
    res.count(f'pairs_{"equal" if want else "unequal"}')
    res.add_set('relations', kind)
    for x, y, tag in ((a, b, 'a==b'), (b, a, 'b==a')):
        try:
            got = (x == y)
        except Exception as e:  # noqa
            got = f'{type(e).__name__}: {e}'
        if got is not want:
            res.violation(
                'eq-disagrees-with-structure',
                f'{tag} is {got} but structures are '
                f'{"equal" if want else "different"} ({kind})', {
                    'a': ta,
                    'b': tb,
                    'relation': kind
                })
    if (a != b) is want:
        res.violation('ne-inconsistent', '!= inconsistent with ==', {
            'a': ta,
            'b': tb
        })
    if want and hash(a) != hash(b):
        res.violation('equal-trees-unequal-hash',
                      'equal trees have different hashes', {
                          'a': ta,
                          'b': tb
                      })
    if not want and hash(a) == hash(b):
        res.count('hash_equal_but_different')
    # use as dict/set keys
    d = {a: 1}
    if (b in d) is not want:
        res.violation('dict-lookup-disagrees',
                      'dict membership disagrees with structure', {
                          'a': ta,
                          'b': tb
                      })
    # comparison with foreign types
    if isinstance(ta, str):
        if (a == ta) is not True or (a == ta + '!') is not False:
            res.violation('eq-with-str', 'leaf == str wrong', {'a': ta})
    else:
        if (a == 'x') is not False:
            res.violation('eq-with-str', 'list == str wrong', {'a': ta})
    if (a == None) is not False:  # noqa: E711
        res.violation('eq-with-none', 'node == None is not False', {'a': ta})


def nested_or_foreign(x):
    if hasattr(x, 'data'):
        return refmodel.to_nested(x)
    return ('<not a Node>', repr(x))


def nested_to_tuple(t):
    if isinstance(t, str):
        return t
    return tuple(nested_to_tuple(c) for c in t)


def check_tree(ns, res, r, t, pool):
    nodes = ns.nodes
    res.count('evaluations')
    res.count('trees')
    n = build_shared(ns, r, t) if r.random() < 0.5 else refmodel.build(
        ns.Node, t)
    # deepcopy
    c = copy.deepcopy(n)
    if refmodel.to_nested(c) != t or not (c == n):
        res.violation('deepcopy-not-equal', 'deepcopy is not an equal tree',
                      {'tree': t})
    cid = ids_of(c)
    if len(set(cid)) != len(cid) or set(cid) & set(ids_of(n)):
        res.violation('deepcopy-shares-ids',
                      'deepcopy re-uses an id or repeats one', {'tree': t})
    # in-process pickle round trip
    try:
        p = pickle.loads(pickle.dumps(n))
        bad = (refmodel.to_nested(p) != t or ids_of(p) != ids_of(n)
               or hash(p) != hash(n) or hashes_of(p) != hashes_of(n)
               or not (p == n))
        why = 'pickle round trip changed structure/ids/hash'
    except Exception as e:  # noqa
        bad = True
        why = f'pickle round trip raised {type(e).__name__}: {e}'
    if bad:
        res.violation('pickle-roundtrip', why, {'tree': t})
    res.count('pickle_roundtrips')
    # traversals against the model; list input and Node input
    if isinstance(t, list):
        items = list(n.data)
        mitems = t
        for md in (None, 1, 2, 3):
            got = [refmodel.to_nested(x) for x in nodes.dfs(items, md)]
            if got != refmodel.dfs(mitems, md):
                res.violation(f'dfs-order', f'dfs(max_depth={md}) differs', {
                    'tree': t,
                    'got': got[:20]
                })
            got = [refmodel.to_nested(x) for x in nodes.bfs(items, md)]
            if got != refmodel.bfs(mitems, md):
                res.violation(f'bfs-order', f'bfs(max_depth={md}) differs', {
                    'tree': t,
                    'got': got[:20]
                })
            f = lambda x: not x.is_leaf() or x.data != 'a'  # noqa: E731
            got = [
                refmodel.to_nested(x)
                for x in nodes.filter_nodes(items, f, md)
            ]
            want = [
                x for x in refmodel.dfs(mitems, md)
                if isinstance(x, list) or x != 'a'
            ]
            if got != want:
                res.violation('filter-nodes',
                              f'filter_nodes(max_depth={md}) differs',
                              {'tree': t})
        got = [
            refmodel.to_nested(x)
            for x in nodes.filter_nodes(items, lambda x: True)
        ]
        if got != refmodel.dfs(mitems):
            res.violation(
                'filter-nodes-default-depth',
                'filter_nodes(exprs, f) with the default max_depth does not '
                'visit every node', {
                    'tree': t,
                    'visited': len(got),
                    'nodes': len(refmodel.dfs(mitems))
                })
        if nodes.count_nodes(items) != refmodel.count_nodes(mitems):
            res.violation('count-nodes', 'count_nodes(list) differs',
                          {'tree': t})
        if nodes.count_exprs(items) != refmodel.count_exprs(mitems):
            res.violation('count-exprs', 'count_exprs(list) differs',
                          {'tree': t})
        # every node visited exactly once (by python identity, no sharing)
        m = refmodel.build(ns.Node, t)
        seen = [id(x) for x in nodes.dfs(list(m.data))]
        if len(seen) != len(set(seen)):
            res.violation('dfs-visits-twice', 'dfs visits a node twice',
                          {'tree': t})
    got = [nested_or_foreign(x) for x in nodes.dfs(n)]
    want = refmodel.dfs(t if isinstance(t, list) else [], None, root=t)
    if got != want:
        res.violation('dfs-order' if isinstance(t, list) else 'dfs-leaf-root',
                      'dfs(Node) differs', {'tree': t, 'got': got[:10]})
    got = [nested_or_foreign(x) for x in nodes.bfs(n)]
    want = refmodel.bfs(t if isinstance(t, list) else [], None, root=t)
    if got != want:
        res.violation('bfs-order' if isinstance(t, list) else 'bfs-leaf-root',
                      'bfs(Node) differs', {'tree': t, 'got': got[:10]})
    if nodes.count_nodes(n) != refmodel.count_nodes([t]):
        res.violation('count-nodes', 'count_nodes(Node) differs', {'tree': t})
    if nodes.count_exprs(n) != refmodel.count_exprs([t]):
        res.violation('count-exprs', 'count_exprs(Node) differs', {'tree': t})
    # comparison with tuples
    if isinstance(t, list) and all(isinstance(x, str) for x in t) and \
            len(t) != 1:
        if not (n == tuple(t)):
            res.violation('eq-with-tuple', 'node != equal tuple', {'tree': t})
    return n


def check_binary_search(ns, res, n):
    res.count('evaluations')
    res.count('binary_search_lengths')
    segs = list(ns.nodes.binary_search(n))
    problems = []
    i = 0
    den = 2
    prev_len = None
    while i < len(segs):
        level = segs[i:i + den]
        if len(level) != den:
            problems.append(f'level with {den} parts incomplete')
            break
        level_sorted = sorted(level)
        pos = 0
        for (s, e) in level_sorted:
            if s != pos or e < s:
                problems.append(f'level {den} does not partition [0,{n})')
                break
            pos = e
        else:
            if pos != n:
                problems.append(f'level {den} does not cover [0,{n})')
        if level != sorted(level, reverse=True):
            problems.append(f'level {den} not in descending order')
        mx = max(e - s for s, e in level)
        if prev_len is not None and mx > prev_len:
            problems.append('lengths increase between levels')
        prev_len = mx
        i += den
        den *= 2
    if any(not (0 <= s <= e <= n) for s, e in segs):
        problems.append('index out of range')
    if n >= 4 and not segs:
        problems.append('no segments for n >= 4')
    if problems:
        res.violation('binary-search-contract', '; '.join(problems[:3]), {
            'n': n,
            'segments': segs[:16]
        })


def shard(args):
    from vlib import dd
    ns = dd.load()
    res = common.ShardResult()
    r = common.rng('c12', args['shard'])
    pool = multiprocessing.get_context('fork').Pool(4)
    pending = []
    try:
        for i in range(args['n']):
            depth = r.choice([0, 1, 2, 3, 4, 6, 12])
            t = rand_tree(r, depth, r.choice([2, 4, 20]))
            n = check_tree(ns, res, r, t, pool)
            res.cmax('max_depth', depth)
            if isinstance(t, list):
                res.add_distinct(common.digest(repr(t)))
            if i % 5 == 0 and not res.vkeys.get('pickle-roundtrip') and \
                    not res.vkeys.get('pool-transfer-failed'):
                # (if pickling already fails in-process, pushing trees
                # through the pool only kills workers and costs time-outs)
                pending.append((t, n, pool.apply_async(_worker_echo, (n, ))))
            for _ in range(4):
                tb, kind = perturb(r, t)
                check_pair(ns, res, r, t, tb, kind)
            tb = rand_tree(r, r.randint(0, 3), 3)
            check_pair(ns, res, r, t, tb, 'independent')
            if i < 2:
                res.sample({'tree': t})
            if len(pending) >= 50:
                drain(res, pending)
        drain(res, pending)
        if args['shard'] == 0:
            for n in list(range(0, 600)) + [1000, 4095, 4096, 4097, 99999]:
                check_binary_search(ns, res, n)
        if args['shard'] in (1, 2) and not res.vkeys.get('pickle-roundtrip'):
            check_concurrent_allocation(ns, res, r)
        if not res.vkeys.get('pickle-roundtrip'):
            check_worker_transfer(ns, res, r)
            check_copies_after_transfer(ns, res, r)
        if args['shard'] == 0 and not res.vkeys.get('pickle-roundtrip') \
                and not res.vkeys.get('pool-transfer-failed'):
            check_deep(ns, res, pool)
    finally:
        # Pool.terminate() can block for ever once a worker has died while
        # holding a queue lock (which broken pickling provokes): keep the
        # pool object alive so that its finalizer never runs, kill the
        # workers; vlib.shardmain leaves with os._exit()
        _KEEP.append(pool)
        for p in list(getattr(pool, '_pool', [])):
            try:
                p.kill()
            except Exception:  # noqa
                pass
    return res.to_dict()


def _worker_build(args):
    """Runs in a pool worker: build trees as fast as possible while the
    other workers do the same (they share one id counter)."""
    import os
    import random
    seed, n = args
    from vlib import dd
    ns = dd.load()
    r = random.Random(seed)
    out = []
    for _ in range(n):
        t = rand_tree(r, r.choice([1, 2, 3]), 3)
        node = refmodel.build(ns.Node, t)
        out.append((t, ids_of(node), node))
    return os.getpid(), out


def check_concurrent_allocation(ns, res, r):
    """Identities handed out while several processes create nodes at the
    same time must be pairwise distinct, and == across trees built in
    different processes must still follow structure."""
    ctx = multiprocessing.get_context('fork')
    pool = ctx.Pool(8)
    _KEEP.append(pool)
    try:
        jobs = [pool.apply_async(_worker_build, ((r.getrandbits(30), 400), ))
                for _ in range(8)]
        got = []
        for j in jobs:
            try:
                got.append(j.get(timeout=120))
            except Exception as e:  # noqa
                res.violation('pool-transfer-failed',
                              f'worker failed: {type(e).__name__}: {e}', {})
                return
    finally:
        for p in list(getattr(pool, '_pool', [])):
            try:
                p.kill()
            except Exception:  # noqa
                pass
    seen = {}
    dup = 0
    trees = []
    for pid, items in got:
        for t, ids, node in items:
            res.count('evaluations')
            res.count('concurrently_built_trees')
            trees.append((pid, t, node))
            if ids != ids_of(node):
                res.violation('pool-return', 'ids changed in transfer',
                              {'tree': t})
            for i in ids:
                if i in seen and seen[i] != pid:
                    dup += 1
                seen.setdefault(i, pid)
    res.count('concurrently_allocated_ids', len(seen))
    res.add_set('allocating_pids', str(len({p for p, _ in got})))
    if dup:
        res.violation(
            'id-allocated-twice',
            f'{dup} node ids were handed out by more than one process while '
            f'8 workers created nodes concurrently', {'duplicates': dup})
    # equality across processes still follows structure
    for _ in range(4000):
        (pa, ta, a), (pb, tb, b) = r.sample(trees, 2)
        if (a == b) is not (ta == tb):
            res.violation(
                'eq-disagrees-with-structure',
                f'trees built in different processes compare '
                f'{a == b} but structures are '
                f'{"equal" if ta == tb else "different"}',
                {'a': ta, 'b': tb})
            break


def check_copies_after_transfer(ns, res, r):
    """Copies get fresh identities - also for a tree that came from another
    process.  A simplification inserts one node at several places; in the
    worker's answer each occurrence is a separate object that carries the
    same id (pickling keeps ids); the re-duplication the strategies apply to
    an adopted answer must still give every later copy an identity of its
    own, and change nothing else."""
    import pickle
    for _ in range(20):
        shared = refmodel.build(ns.Node, r.choice(
            ['x', ['f', 'x', []], ['g', ['h', 'y'], 'z'], []]))
        k = r.randint(2, 4)
        tops = []
        for j in range(r.randint(1, 3)):
            kids = [ns.Node(r.choice('abc')) for _ in range(r.randint(0, 2))]
            for _ in range(k if j == 0 else r.randint(0, 2)):
                kids.insert(r.randint(0, len(kids)), shared)
            tops.append(ns.Node(*kids) if kids else ns.Node())
        received = pickle.loads(pickle.dumps(tops))
        res.count('evaluations')
        res.count('copies_after_transfer')
        want = refmodel.to_nested_list(tops)
        try:
            out = ns.nodes.reduplicate(received)
        except Exception as e:  # noqa
            res.violation('copy-after-transfer:raised',
                          f'reduplicate raised {e!r} on a received tree',
                          {'tree': want})
            return
        ids = [x for t in out for x in ids_of(t)]
        if refmodel.to_nested_list(out) != want:
            res.violation('copy-after-transfer:structure',
                          'the copy of a received tree is not equal to it',
                          {'tree': want})
            return
        if len(ids) != len(set(ids)):
            res.violation(
                'copy-after-transfer:identities-not-fresh',
                f'{len(ids) - len(set(ids))} node(s) of a tree received '
                f'from another process still share an identity after the '
                f'copies were made', {'tree': want})
            return
        if [hash(a) for a in out] != [hash(b) for b in tops]:
            res.violation('copy-after-transfer:hash',
                          'hash changed by copying', {'tree': want})
            return


def check_worker_transfer(ns, res, r):
    """The receiving end of ddmin's own transfer protocol: the real
    strategy_ddmin._worker is handed a *history* of pickled inputs (each
    derived from its predecessor by a size-preserving leaf swap, a size
    changing edit, or a return to an earlier input) and must work on the
    tree it was sent - equal, with the identities and hashes sent - and not
    on anything it kept from an earlier task.  Only the command is replaced
    (checker.check_exprs records its argument and accepts)."""
    import importlib
    import pickle
    ddmin = importlib.import_module('ddsmt.strategy_ddmin')
    checker = importlib.import_module('ddsmt.checker')
    Simp = ns.mutator_utils.Simplification
    seen = []
    orig = checker.check_exprs
    checker.check_exprs = lambda exprs: (seen.append(exprs), True)[1]
    try:
        for _ in range(12):
            n = r.randint(2, 6)
            cur = [['assert', [r.choice(['<', '>']), r.choice('abxy'),
                               str(r.randint(2, 9))]] for _ in range(n)]
            cur.append(['check-sat'])
            history = []
            for step in range(r.randint(3, 8)):
                kind = r.choice(['same', 'same', 'same', 'size', 'back'])
                nxt = copy.deepcopy(cur)
                if kind == 'same':
                    a = nxt[r.randrange(n)][1]
                    k = r.choice([1, 2])
                    a[k] = r.choice([c for c in ('abxy' if k == 1 else
                                                 '23456789') if c != a[k]])
                elif kind == 'size':
                    nxt[r.randrange(n)][1][2] = str(r.randint(10, 999))
                elif history:
                    nxt = copy.deepcopy(r.choice(history))
                history.append(cur)
                cur = nxt
                exprs = [refmodel.build(ns.Node, t) for t in cur]
                marker = ns.Node('marker')
                simp = Simp({exprs[-1].id: marker}, [])
                task = ddmin.Task(step, pickle.dumps(exprs),
                                  pickle.dumps([simp]))
                del seen[:]
                result = ddmin._worker(task)
                res.count('evaluations')
                res.count('worker_transfers')
                res.add_set('worker_transfer_kinds', kind)
                want = cur[:-1] + ['marker']
                if not result.success or not seen:
                    res.violation(
                        'worker-transfer:no-result',
                        f'_worker returned no candidate for {cur!r}',
                        {'history': history + [cur]})
                    return
                got = refmodel.to_nested_list(seen[-1])
                if got != want:
                    res.violation(
                        'worker-transfer:other-tree',
                        f'_worker was sent {cur!r} (step {step}, {kind}) but '
                        f'worked on {got!r}',
                        {'history': history + [cur], 'got': got})
                    return
                sent = [x for e in exprs[:-1] for x in ids_of(e)]
                used = [x for e in seen[-1][:-1] for x in ids_of(e)]
                if sent != used:
                    res.violation(
                        'worker-transfer:other-identities',
                        'the tree the worker used has other node identities '
                        'than the tree sent', {'history': history + [cur]})
                    return
                if [hash(e) for e in exprs[:-1]] != \
                        [hash(e) for e in seen[-1][:-1]]:
                    res.violation(
                        'worker-transfer:other-hash',
                        'hashes differ between the tree sent and the tree '
                        'the worker used', {'history': history + [cur]})
                    return
    finally:
        checker.check_exprs = orig


def check_deep(ns, res, pool):
    """A 5000-level tree: nothing in the API may depend on the recursion
    limit."""
    import sys
    depth = 5000
    a = ns.Node('x')
    b = ns.Node('x')
    for _ in range(depth):
        a = ns.Node(a, ns.Node('y'))
        b = ns.Node(b, ns.Node('y'))
    res.count('evaluations')
    res.count('deep_trees')
    res.cmax('max_depth', depth)
    try:
        ok = (a == b) and hash(a) == hash(b)
        c = copy.deepcopy(a)
        ok = ok and (c == a)
        p = pickle.loads(pickle.dumps(a))
        ok = ok and (p == a) and ids_of(p) == ids_of(a)
        ok = ok and ns.nodes.count_nodes(a) == 2 * depth + 1
        ok = ok and ns.nodes.count_exprs(a) == depth
        ok = ok and len(list(ns.nodes.dfs(a))) == 2 * depth + 1
        ok = ok and len(list(ns.nodes.bfs(a))) == 2 * depth + 1
        ids, h, back = pool.apply_async(_worker_echo_flat,
                                        (a, )).get(timeout=120)
        ok = ok and ids == ids_of(a) and h == hash(a) and (back == a)
        if not ok:
            res.violation('deep-tree', 'API wrong on a 5000-level tree', {})
    except RecursionError as e:
        res.violation('deep-tree-recursion',
                      f'RecursionError on a {depth}-level tree: {e}', {})


def drain(res, pending):
    for t, n, fut in pending:
        if res.vkeys.get('pool-transfer-failed', 0) >= 3:
            break  # each further failure would cost another time-out
        try:
            pid, nested, ids, hashes, h, back = fut.get(timeout=30)
        except Exception as e:  # noqa
            res.violation('pool-transfer-failed',
                          f'sending a tree to a worker failed: '
                          f'{type(e).__name__}: {e}', {'tree': t})
            continue
        res.count('evaluations')
        res.count('pool_roundtrips')
        res.add_set('worker_pids', pid)
        if nested != t:
            res.violation('pool-structure',
                          'worker received a different structure',
                          {'tree': t})
        if ids != ids_of(n) or hashes != hashes_of(n) or h != hash(n):
            res.violation('pool-ids-hash',
                          'worker received different ids or hash',
                          {'tree': t})
        if refmodel.to_nested(back) != t or ids_of(back) != ids_of(n) or \
                hash(back) != hash(n) or not (back == n):
            res.violation('pool-return',
                          'tree returned from worker differs', {'tree': t})
    pending.clear()


def run(ctx):
    n = 1200 if ctx.tier == 'quick' else 200000
    shards = [{'shard': i, 'n': n} for i in range(common.NCPU)]
    results = common.run_shards('checks.c12', shards, timeout=3000)
    common.merge_shards(ctx, results)
    ctx.rule = (
        'random trees (depth<=12, width<=20, empty lists, Unicode leaves '
        'incl. empty string, shared subtrees) + 5 near-equal partners each '
        '(one leaf changed, child appended/removed, leaf<->one-element list, '
        'prefix, reordered, extra nesting, identical copy, independent); '
        'every 5th tree goes through a real fork pool of 4 workers and '
        'back; 8 workers building trees concurrently (ids must be distinct '
        'across processes); binary_search contract for n in 0..599 and some '
        'large n; '
        'distinct non-trivial = distinct non-leaf trees')
    ctx.assumptions = [
        'leaf texts are encodable Unicode (lone surrogates cannot come from '
        'a decoded file)'
    ]
    if not ctx.violations:
        if ctx.counters.get('pool_roundtrips', 0) == 0:
            ctx.inconclusive_because('no tree went through the pool')
        if len(ctx.extra.get('worker_pids', ())) < 2:
            ctx.inconclusive_because('fewer than 2 worker processes observed')


def replay(data):
    from vlib import dd
    import random
    ns = dd.load()
    res = common.ShardResult()
    r = random.Random(0)
    for c in data['cases']:
        w = c['witness']
        if 'a' in w and 'b' in w:
            check_pair(ns, res, r, w['a'], w['b'], w.get('relation', '?'))
        elif 'tree' in w:
            check_tree(ns, res, r, w['tree'], None)
        elif 'n' in w:
            check_binary_search(ns, res, w['n'])
    for v in res.violations:
        print(v['key'], v['what'][:300])
    return 1 if res.violations else 0
