"""C14 - exactly the enabled mutators are used.

(i) in-process: option sequences are parsed by the real option parser, the
real auto_detect_theories / ddmin_passes / get_passes are called, and the
classes of the scheduled mutator instances are compared with an independent
fold over the option sequence plus an independent 'declares theory T'
predicate.  All single options and all ordered pairs are enumerated.
(ii) traced real runs: the mutator classes whose filter/mutations/
global_mutations were called must be enabled ones.
"""
import itertools
import os
import shutil

from vlib import common, realrun, refreader

LEVEL = 'exploration'

DETECTABLE = ['arithmetic', 'bv', 'datatypes', 'fp', 'strings']

INPUTS = {
    'none': '(declare-const b Bool)\n(assert b)\n(check-sat)\n',
    'bv-const': '(declare-const v (_ BitVec 8))\n(assert (= v v))\n',
    'bv-fun-result': '(declare-fun f (Bool) (_ BitVec 4))\n(assert (= (f true) (f false)))\n',
    'bv-fun-param': '(declare-fun f ((_ BitVec 4)) Bool)\n(assert (f #x3))\n',
    'bv-define-fun-param': '(define-fun g ((a (_ BitVec 4))) Bool (= a #x1))\n(assert (g #x1))\n',
    'bv-define-sort': '(define-sort W () (_ BitVec 8))\n(declare-const b Bool)\n(assert b)\n',
    'bv-in-array': '(declare-const a (Array (_ BitVec 2) Bool))\n(assert (select a #b01))\n',
    'int-const': '(declare-const i Int)\n(assert (> i 0))\n',
    'real-fun-param': '(declare-fun h (Real) Bool)\n(assert (h 1.5))\n',
    'int-fun-result': '(declare-fun k () Int)\n(assert (= k 1))\n',
    'string-const': '(declare-const s String)\n(assert (= s "a"))\n',
    'seq-const': '(declare-const q (Seq Int))\n(assert (= q q))\n',
    'string-fun-param': '(declare-fun p (String) Bool)\n(assert (p "x"))\n',
    'fp-const': '(declare-const x (_ FloatingPoint 5 11))\n(assert (fp.isNaN x))\n',
    'fp-short': '(declare-const x Float32)\n(assert (fp.isNaN x))\n',
    'rm-const': '(declare-const m RoundingMode)\n(assert (= m RNE))\n',
    'rm-fun-param': '(declare-fun c (RoundingMode) Bool)\n(assert (c RNE))\n',
    'seq-fun-param': '(declare-fun c ((Seq Int)) Bool)\n(assert (c (as seq.empty (Seq Int))))\n',
    'int-define-fun-param': '(define-fun c ((a Int)) Bool (> a 0))\n(assert (c 1))\n',
    'fp-fun-param': '(declare-fun c (Float16) Bool)\n(assert (c (_ NaN 5 11)))\n',
    'dt': '(declare-datatype T ((A) (B (s Bool))))\n(declare-const t T)\n(assert (= t A))\n',
    'dts': '(declare-datatypes ((L 0)) (((nil) (cons (hd Bool) (tl L)))))\n(assert (= nil nil))\n',
    'mixed': '(declare-const v (_ BitVec 8))\n(declare-const i Int)\n(declare-const s String)\n(assert (= v v))\n',
}
# every sort of every theory at the *result* position of each kind of
# declaration (and nowhere else in the input)
for _n, _s, _lit in [('rm', 'RoundingMode', 'RNE'),
                     ('fp32', 'Float32', '(_ NaN 8 24)'),
                     ('fp', '(_ FloatingPoint 5 11)', '(_ NaN 5 11)'),
                     ('str', 'String', '"a"'),
                     ('seq', '(Seq Bool)', '(as seq.empty (Seq Bool))'),
                     ('int', 'Int', '1'), ('real', 'Real', '1.5'),
                     ('bv', '(_ BitVec 8)', '#x01')]:
    INPUTS[f'{_n}-declare-fun-result'] = (
        f'(declare-fun r () {_s})\n(declare-const b Bool)\n(assert b)\n')
    INPUTS[f'{_n}-declare-fun-result-1'] = (
        f'(declare-fun r (Bool) {_s})\n(declare-const b Bool)\n'
        f'(assert b)\n')
    INPUTS[f'{_n}-define-fun-result'] = (
        f'(define-fun r () {_s} {_lit})\n(declare-const b Bool)\n'
        f'(assert b)\n')
    INPUTS[f'{_n}-define-sort'] = (
        f'(define-sort R () {_s})\n(declare-const b Bool)\n(assert b)\n')


def declares(nested, theory):
    """Independent predicate: does a declaration of the input mention a sort
    of the theory (at any position of its signature)?"""

    def sorts_in(x):
        yield x
        if isinstance(x, list):
            for c in x:
                yield from sorts_in(c)

    def is_t(s):
        if theory == 'arithmetic':
            return s in ('Int', 'Real')
        if theory == 'bv':
            return isinstance(s, list) and len(s) == 3 and s[0] == '_' and \
                s[1] == 'BitVec'
        if theory == 'strings':
            return s == 'String' or (isinstance(s, list) and s
                                     and s[0] == 'Seq')
        if theory == 'fp':
            return s in ('Float16', 'Float32', 'Float64', 'Float128',
                         'RoundingMode') or (
                             isinstance(s, list) and len(s) == 4
                             and s[:2] == ['_', 'FloatingPoint'])
        return False

    for c in nested:
        if not isinstance(c, list) or not c:
            continue
        if theory == 'datatypes':
            if c[0] in ('declare-datatype', 'declare-datatypes'):
                return True
            continue
        if c[0] in ('declare-const', 'declare-fun', 'define-fun',
                    'define-sort'):
            sig = c[2:] if c[0] != 'define-fun' else c[2:4]
            if any(is_t(s) for s in sorts_in(sig)):
                return True
    return False


def registry(ns):
    """{group: {class name: option name}}"""
    return {g: dict(reg)
            for g, (mod, reg) in ns.mutators.get_all_mutators().items()}


def all_options(reg):
    """[(option string, kind, target, value)]"""
    out = [('--disable-all', 'all', None, False)]
    for g, classes in reg.items():
        out.append((f'--{g}', 'group', g, True))
        out.append((f'--no-{g}', 'group', g, False))
        for cname, opt in classes.items():
            out.append((f'--{opt}', 'mutator', cname, True))
            out.append((f'--no-{opt}', 'mutator', cname, False))
    return out


def reference_fold(reg, seq, optinfo, nested):
    enabled = {c: True for g in reg for c in reg[g]}
    explicit = {g: None for g in reg}
    for o in seq:
        _, kind, target, val = optinfo[o]
        if kind == 'all':
            for c in enabled:
                enabled[c] = False
            for g in explicit:
                explicit[g] = False
        elif kind == 'group':
            explicit[target] = val
            for c in reg[target]:
                enabled[c] = val
        else:
            enabled[target] = val
    may_disable = {}
    for g in DETECTABLE:
        may_disable[g] = explicit[g] is None and not declares(nested, g)
    return enabled, explicit, may_disable


def evaluate_sequence(ns, res, reg, optinfo, seq, inp_name, text, nested,
                      exprs):
    """Parse with the real parser, run detection and pass construction,
    compare with the reference fold."""
    from ddsmt import options, mutators, strategy_ddmin, strategy_hierarchical
    res.count('evaluations')
    witness = {'options': list(seq), 'input': inp_name, 'text': text}
    try:
        parsed = options.parse_options(mutators,
                                       list(seq) + ['in.smt2', 'out.smt2',
                                                    'cmd'])
    except SystemExit:
        res.violation('option-sequence-rejected',
                      f'the option parser rejected {seq}', witness)
        return
    vars(options)['__PARSED_ARGS'] = parsed
    enabled, explicit, may_disable = reference_fold(reg, seq, optinfo,
                                                    nested)
    mutators.auto_detect_theories(exprs)
    hier = strategy_hierarchical.get_passes()
    ddm = strategy_ddmin.ddmin_passes()
    last = hier[-1][0] if isinstance(hier[-1], tuple) else hier[-1]
    last_classes = {type(m).__name__ for m in last}
    hier_all = set()
    for ps in hier:
        ps = ps[0] if isinstance(ps, tuple) else ps
        hier_all |= {type(m).__name__ for m in ps}
    ddmin_all = {type(m).__name__ for ps in ddm for m in ps}
    # what detection actually did, per group
    group_of = {c: g for g in reg for c in reg[g]}
    # expected: enabled by the fold, minus groups detection may disable
    must_on = {c for c, v in enabled.items()
               if v and not may_disable.get(group_of[c], False)}
    may_on = {c for c, v in enabled.items() if v}
    res.add_set('enabled_sets', common.digest(repr(sorted(must_on))))
    for c in enabled:
        res.count(f'cls_enabled_{c}' if c in must_on else
                  f'cls_disabled_{c}')

    def viol(key, what):
        res.violation(key, what + f' (options {list(seq)}, input '
                      f'{inp_name})', witness)

    extra = (hier_all | ddmin_all) - may_on
    if extra:
        viol(f'disabled-mutator-scheduled:{sorted(extra)[0]}',
             f'{sorted(extra)} are disabled by the command line but appear '
             f'in a pass')
    missing = must_on - last_classes
    if missing:
        g = group_of[sorted(missing)[0]]
        detected_off = g in DETECTABLE and explicit[g] is None
        key = ('theory-detection-ignores-parameter-sorts' if inp_name.endswith('-param') and detected_off else f'theory-wrongly-auto-disabled:{g}:{inp_name}'
               if detected_off and all(c not in last_classes
                                       for c in reg[g] if enabled[c]) else
               f'enabled-mutator-missing-hierarchical:{sorted(missing)[0]}')
        viol(key, f'{sorted(missing)} are enabled but missing from the last '
             f'hierarchical pass')
    missing_dd = must_on - ddmin_all - {'BinaryReduction'}
    if missing_dd and not missing:
        viol(f'enabled-mutator-missing-ddmin:{sorted(missing_dd)[0]}',
             f'{sorted(missing_dd)} are enabled but not scheduled by ddmin')
    if 'BinaryReduction' in ddmin_all:
        res.count('ddmin_schedules_binary_reduction')


def shard(args):
    import sys
    from vlib import dd
    ns = dd.load()
    res = common.ShardResult()
    if args['kind'] == 'traced':
        return traced_runs(res, args)
    reg = registry(ns)
    opts = all_options(reg)
    optinfo = {o[0]: o for o in opts}
    names = [o[0] for o in opts]
    parsed_inputs = {}
    for name, text in INPUTS.items():
        nested = refreader.read(text)
        parsed_inputs[name] = (text, nested,
                               list(ns.nodeio.parse_smtlib(text)))
    r = common.rng('c14', args['shard'])
    seqs = []
    if args['kind'] == 'singles':
        seqs = [()] + [(o, ) for o in names]
        inputs = list(INPUTS)
    elif args['kind'] == 'triples':
        # sandwiches: a group option, an option of one of its mutators, the
        # same or the opposite group option again (and --disable-all first)
        by_group = {}
        for o, kind, target, val in opts:
            if kind == 'mutator':
                g = next(g for g in reg if target in reg[g])
                by_group.setdefault(g, []).append(o)
        for g, mopts in by_group.items():
            for m in mopts:
                for a in (f'--{g}', f'--no-{g}', '--disable-all'):
                    for c in (f'--{g}', f'--no-{g}'):
                        seqs.append((a, m, c))
        seqs = seqs[args['lo']::args['step']]
        inputs = None
    elif args['kind'] == 'pairs':
        allp = list(itertools.product(names, names))
        seqs = allp[args['lo']::args['step']]
        inputs = None
    else:
        for _ in range(args['n']):
            seqs.append(tuple(r.choice(names)
                              for _ in range(r.randint(3, 8))))
        inputs = None
    for i, seq in enumerate(seqs):
        ins = inputs or [r.choice(list(INPUTS))]
        for inp in ins:
            text, nested, exprs = parsed_inputs[inp]
            evaluate_sequence(ns, res, reg, optinfo, seq, inp, text, nested,
                              exprs)
        res.add_distinct(common.digest(repr(seq)))
        res.count(f'sequences_{args["kind"]}')
        if i < 1:
            res.sample({'options': list(seq), 'inputs': ins})
    res.counters = {k: v for k, v in res.counters.items()
                    if not k.startswith('cls_')} | {
        'classes_seen_enabled': sum(
            1 for k in res.counters if k.startswith('cls_enabled_')),
        'classes_seen_disabled': sum(
            1 for k in res.counters if k.startswith('cls_disabled_'))}
    return res.to_dict()


def traced_runs(res, args):
    """(ii) real runs with random option sequences: only enabled mutators
    may be called."""
    from vlib import dd, workload
    ns = dd.load()
    reg = registry(ns)
    opts = all_options(reg)
    optinfo = {o[0]: o for o in opts}
    names = [o[0] for o in opts]
    group_of = {c: g for g in reg for c in reg[g]}
    r = common.rng('c14-traced', args['shard'])
    base = common.scratch_dir('c14')
    try:
        for i in range(args['n']):
            s = workload.small_script(r, 'small')
            text = workload.render_with_noise(r, s.nested(), comments=False)
            nested = refreader.read(text)
            rules, pred = workload.pick_spec(r, text,
                                             families=['has', 'count',
                                                       'all', 'ntok'])
            seq = tuple(r.choice(names) for _ in range(r.randint(0, 5)))
            if r.random() < 0.3:
                seq = ('--disable-all', ) + tuple(
                    o for o in seq if not o.startswith('--no-'))
            strat = r.choice(workload.STRATEGIES)
            breaking = r.random() < 0.5
            if breaking and r.random() < 0.7:
                # (the calls are counted per run, not per strategy)
                strat = 'hierarchical'
            cfg = {'monitors': ['mut']}
            broken = None
            if breaking:
                # one mutator fails in every call: the others still have to
                # be consulted (the failing one is switched on explicitly, as
                # the last option, whatever the sequence said before)
                broken = r.choice(['EraseNode', 'Constants', 'ReplaceByChild',
                                   'ReplaceByVariable', 'LetSubstitution',
                                   'SortChildren', 'MergeWithChildren',
                                   'BoolDeMorgan', 'SimplifySymbolNames'])
                cfg['break_mutator'] = broken
                cfg['break_where'] = r.choice(['mutations', 'filter', 'all'])
                opt = next(reg[g][broken] for g in reg if broken in reg[g])
                seq = seq + (f'--{opt}', )
            opts_run = ['--strategy', strat, '-j', str(r.choice([1, 2])),
                        '--timeout', '20'] + list(seq)
            wd = os.path.join(base, f'r{i}')
            run = realrun.run_ddsmt(wd, text, rules, opts=opts_run,
                                    launcher=cfg)
            shutil.rmtree(wd, ignore_errors=True)
            res.count('evaluations')
            res.count('traced_runs')
            if run.timed_out or run.rc != 0:
                res.count('traced_runs_failed')
                continue
            enabled, explicit, may_disable = reference_fold(reg, seq,
                                                            optinfo, nested)
            may_on = {c for c, v in enabled.items() if v}
            called = set()
            for e in run.events:
                if e['ev'] == 'counts':
                    for k in e['counts']:
                        if '.' in k:
                            called.add(k.split('.')[0])
            # scheduling as the real run built it ('passes' events)
            must_on = {c for c, v in enabled.items()
                       if v and not may_disable.get(group_of[c], False)}
            for e in run.events:
                if e['ev'] != 'passes':
                    continue
                sched = {c for ps in e['passes'] for c in ps}
                res.count('pass_lists_of_real_runs_checked')
                if sched - may_on:
                    res.violation(
                        f'disabled-mutator-scheduled:{sorted(sched - may_on)[0]}',
                        f'{sorted(sched - may_on)} scheduled by a real '
                        f'{e["strategy"]} run although disabled by '
                        f'{list(seq)}', {'options': opts_run, 'input': text})
                if e['strategy'] == 'hierarchical':
                    miss = must_on - set(e['passes'][-1])
                else:
                    miss = must_on - sched - {'BinaryReduction'}
                if miss:
                    res.violation(
                        f'enabled-mutator-missing-in-run:{sorted(miss)[0]}',
                        f'{sorted(miss)} enabled by {list(seq)} but not '
                        f'scheduled by the real {e["strategy"]} run',
                        {'options': opts_run, 'input': text})
            # A run that ends normally has gone through all its passes once
            # more without success: every mutator scheduled there has been
            # consulted, also when another one fails in every call.
            ninj = sum(1 for e in run.events
                       if e['ev'] == 'injected_exception')
            if ninj:
                res.count('traced_runs_with_a_failing_mutator')
            final = text if run.out_bytes is None else \
                run.out_bytes.decode('utf-8', 'replace')
            try:
                final_nonempty = bool(refreader.read(final))
            except Exception:
                final_nonempty = False
            # (on an input that has become empty there is no node to consult
            # a mutator about)
            if not run.uncaught_traceback and final_nonempty:
                for e in run.events:
                    if e['ev'] != 'passes' or e['strategy'] != strat and \
                            strat != 'hybrid':
                        continue
                    last = set(e['passes'][-1]) \
                        if e['strategy'] == 'hierarchical' else \
                        {c for ps in e['passes'] for c in ps}
                    res.count('runs_checked_for_use_of_scheduled_mutators')
                    unused = last - called - {broken}
                    if unused:
                        res.violation(
                            'scheduled-mutator-never-consulted' +
                            (':while-another-fails' if ninj else ''),
                            f'{sorted(unused)[:4]} scheduled by the real '
                            f'{e["strategy"]} run but never called' +
                            (f' ({broken} fails in every call)'
                             if ninj else ''),
                            {'options': opts_run, 'input': text,
                             'rules': rules, 'launcher': cfg})
            # strategy ddmin sweeps over its second pass list again and
            # again until a sweep removes nothing: every sweep applies every
            # mutator of the list, in the order of the list
            for e in run.events:
                if e['ev'] != 'passes' or e['strategy'] != 'ddmin' or \
                        len(e['passes']) < 2 or run.uncaught_traceback:
                    continue
                stage2 = e['passes'][1]
                applied = [a['mutator'] for a in run.events
                           if a['ev'] == 'ddmin_apply' and a['stage'] == 2]
                if not stage2 or not applied:
                    continue
                res.count('ddmin_sweeps_observed', len(applied) // len(stage2))
                sweeps = [applied[k:k + len(stage2)]
                          for k in range(0, len(applied), len(stage2))]
                badk = next((k for k, sw in enumerate(sweeps)
                             if sw != stage2), None)
                if badk is not None:
                    miss = [m for m in stage2 if m not in sweeps[badk]]
                    res.violation(
                        'ddmin-sweep-skips-scheduled-mutators',
                        f'application #{badk * len(stage2) + 1} ff. of '
                        f'strategy ddmin\'s second stage is not one sweep '
                        f'over its pass list in order (not applied there: '
                        f'{miss[:3]})',
                        {'options': opts_run, 'input': text, 'rules': rules,
                         'sweep': sweeps[badk], 'pass_list': stage2})
            res.count('mutator_classes_called', len(called))
            for c in called:
                res.add_set('classes_called', c)
            bad = called - may_on
            if bad:
                res.violation(
                    f'disabled-mutator-called:{sorted(bad)[0]}',
                    f'{sorted(bad)} were called although disabled by '
                    f'{list(seq)}', {'options': opts_run, 'input': text,
                                     'rules': rules})
            res.add_distinct(common.digest(repr(seq) + text))
    finally:
        shutil.rmtree(base, ignore_errors=True)
    return res.to_dict()


def run(ctx):
    shards = [{'kind': 'singles', 'shard': 0}]
    step = 12
    if ctx.tier == 'quick':
        # every 6th ordered pair per shard slot, 12 slots => 1/6 of all
        for i in range(12):
            shards.append({'kind': 'pairs', 'shard': 1 + i, 'lo': i * 6,
                           'step': 72})
        shards.append({'kind': 'random', 'shard': 50, 'n': 300})
        shards.append({'kind': 'triples', 'shard': 55, 'lo': 0, 'step': 1})
        for i in range(2):
            shards.append({'kind': 'traced', 'shard': 60 + i, 'n': 8})
    else:
        for i in range(16):
            shards.append({'kind': 'pairs', 'shard': 1 + i, 'lo': i,
                           'step': 16})
        for i in range(4):
            shards.append({'kind': 'triples', 'shard': 55 + i, 'lo': i,
                           'step': 4})
        for i in range(8):
            shards.append({'kind': 'random', 'shard': 70 + i, 'n': 4000})
        for i in range(8):
            shards.append({'kind': 'traced', 'shard': 60 + i, 'n': 100})
    results = common.run_shards('checks.c14', shards, timeout=3400)
    common.merge_shards(ctx, results)
    ctx.rule = (
        'option sequences over 123 option strings (--[no-]<mutator> x 53, '
        '--[no-]<group> x 8, --disable-all): the empty sequence and all '
        'singles x 20 inputs (exhaustive), ordered pairs (' +
        ('1/6 sample' if ctx.tier == 'quick' else 'all 15129, exhaustive') +
        '), all 636 sandwiches (group option, option of one of its mutators, '
        'group option again; also after --disable-all) and random sequences '
        'of length 3-8, each on an input with / '
        'without declarations of each theory (sort in constant, function '
        'result, function parameter, define-sort, array); traced real runs '
        'with random option sequences; distinct non-trivial = distinct '
        'option sequences')
    ctx.extra['singles_exhaustive'] = True
    ctx.extra['pairs_exhaustive'] = ctx.tier == 'thorough'
    ctx.assumptions = [
        'the registries get_mutators() of the 8 modules define which option '
        'names which class', 'an individual --<mutator> does not make its '
        'group "explicitly set" (only group flags and --disable-all do)'
    ]
    if ctx.counters.get('traced_runs', 0) == 0:
        ctx.inconclusive_because('no traced run')
    if ctx.counters.get('traced_runs_with_a_failing_mutator', 0) == 0:
        ctx.inconclusive_because('no traced run in which the injected '
                                 'failure of a mutator was reached')
    if ctx.counters.get('ddmin_sweeps_observed', 0) == 0:
        ctx.inconclusive_because('no sweep of strategy ddmin observed')
    if ctx.counters.get('sequences_pairs', 0) < 1000:
        ctx.inconclusive_because('too few ordered pairs evaluated')


def replay(data):
    from vlib import dd
    ns = dd.load()
    res = common.ShardResult()
    reg = registry(ns)
    opts = all_options(reg)
    optinfo = {o[0]: o for o in opts}
    for c in data['cases']:
        w = c['witness']
        if 'text' not in w:
            continue
        nested = refreader.read(w['text'])
        exprs = list(ns.nodeio.parse_smtlib(w['text']))
        evaluate_sequence(ns, res, reg, optinfo, tuple(w['options']),
                          w['input'], w['text'], nested, exprs)
    for v in res.violations:
        print(v['key'], v['what'][:300])
    return 1 if res.violations else 0
