"""C07 part (ii): the renderings that a *real run* produces.

In a run the trees that are rendered are not the parser's own: they went
through pickling (to the pool workers and back), substitution and
re-duplication first, and they are rendered by the real writers under the
real option object.  With only the structure-removing mutators enabled
(erase-node, merge-children, substitute-children, binary-reduction) every
leaf of every candidate is a leaf of the input, in the input's order.  So for
every file handed to the command and every state of the output file:

* the file lexes, and its token sequence (comments included) is the leaf
  sequence of the tree ddSMT holds for it (rendering = identity);
* that sequence is a subsequence of the input's leaf sequence: literals,
  quoted symbols and comments are emitted verbatim, nothing is split, merged,
  reordered or swallowed.

Inputs are rich in what rendering and transport could damage: characters
outside ASCII (2-4 bytes in UTF-8) in comments, literals and quoted symbols,
long tokens, comments at every position.
"""
import os
import shutil

from vlib import common, gen_lex, realrun, refreader

NON_ASCII = ['é', 'ü', 'ß', 'Ω', '€', '→', '日本', '\U0001d518', 'ñ', 'ǅ']
MUTS = ['--disable-all', '--erase-node', '--merge-children',
        '--substitute-children', '--binary-reduction']


def spice(r, item):
    """Insert characters outside ASCII into comments, literals and quoted
    symbols (the standard allows them there)."""
    if isinstance(item, list):
        return [spice(r, x) for x in item]
    if item[0] in '"|' and len(item) >= 2 and r.random() < 0.6:
        k = r.randint(1, len(item) - 1)
        # not between the two halves of a doubled quote
        if item[0] == '"' and item[k - 1:k + 1] == '""' and k > 1:
            return item
        return item[:k] + ''.join(
            r.choice(NON_ASCII) for _ in range(r.randint(1, 4))) + item[k:]
    if item[0] == ';' and r.random() < 0.7:
        k = r.randint(1, len(item))
        return item[:k] + ''.join(
            r.choice(NON_ASCII) for _ in range(r.randint(1, 6))) + item[k:]
    return item


def leaves_of_text(text):
    """Non-parenthesis tokens, comments normalised (writers end a comment
    with a line end of their own)."""
    return [refreader.norm_comment(t) for t in refreader.lex(text)
            if t not in ('(', ')')]


def is_subsequence(small, big):
    it = iter(big)
    return all(any(x == y for y in it) for x in small)


def make_case(r):
    while True:
        items = gen_lex.tree(r, depth=r.randint(1, 4), width=r.randint(3, 6),
                             long_tokens=r.random() < 0.3,
                             toplevel_atoms=r.random() < 0.3)
        if r.random() < 0.5:
            items = spice(r, items)
        else:
            # characters outside ASCII at top level only (comment lines
            # between the commands of a benchmark, top-level literals)
            for _ in range(r.randint(1, 3)):
                items.insert(r.randint(0, len(items)), r.choice(
                    ['; comment', ';', '"lit"', '|q s|', '; a (b) "c"']))
            items = [spice(r, x) if not isinstance(x, list) else x
                     for x in items]
        text = gen_lex.serialise(r, items, gen_lex.SEPS_STD)
        toks = refreader.lex(text)
        if 8 <= len(toks) <= 400:
            break
    atoms = [t for t in refreader.strip_comments(toks) if t not in '()']
    fam = r.choice(['all', 'hash', 'has', 'ntok'])
    if fam == 'has' and atoms:
        pred = 'has:' + realrun.pct(r.choice(atoms))
    elif fam == 'hash':
        pred = 'hash:3:0,1'
    elif fam == 'ntok':
        pred = f'ntok>={max(1, len(toks) // 3)}'
    else:
        pred = 'all'
    rules = realrun.simple_spec(pred)
    strat = r.choice(['ddmin', 'hierarchical', 'hybrid'])
    opts = ['--strategy', strat, '-j', str(r.choice([1, 2, 4])),
            '--timeout', '20'] + MUTS + r.choice(
                [[], ['--pretty-print'], ['--wrap-lines']])
    return text, rules, opts, {'input': text, 'rules': rules, 'opts': opts}


def judge(res, run, text, desc):
    try:
        in_leaves = leaves_of_text(text)
    except refreader.LexError:
        return
    nonascii_seen = False
    for e in run.events:
        if e['ev'] == 'check':
            ftext, leaves, where = e.get('ftext'), e.get('leaves'), \
                'file handed to the command'
        elif e['ev'] == 'write':
            ftext, leaves, where = e.get('text'), e.get('leaves'), \
                'output file'
        else:
            continue
        if ftext is None:
            continue
        res.count('real_renderings_judged')
        if not ftext.isascii():
            nonascii_seen = True
        problem = None
        try:
            got = leaves_of_text(ftext)
        except refreader.LexError as ex:
            got = None
            problem = f'does not lex ({ex})'
        if problem is None and leaves is not None:
            want = [refreader.norm_comment(t) for t in leaves
                    if t not in ('(', ')')]
            if got != want:
                problem = ('has other tokens than the tree ddSMT holds for '
                           f'it: {got[:12]!r} vs {want[:12]!r}')
        if problem is None and not is_subsequence(got, in_leaves):
            odd = [t for t in got if t not in set(in_leaves)][:3]
            problem = ('is not made of the input\'s tokens in their order'
                       + (f' (not in the input: {odd!r})' if odd else ''))
        if problem is not None:
            w = dict(desc)
            w['rendering'] = ftext[:3000]
            w['where'] = where
            res.violation('real-run:rendering-not-verbatim',
                          f'real run {" ".join(desc["opts"])}: the {where} '
                          f'{problem}', w)
            return
    if nonascii_seen:
        res.count('real_runs_with_non_ascii_renderings')


def shard(args):
    res = common.ShardResult()
    r = common.rng('c07real', args['shard'])
    base = common.scratch_dir('c07r')
    try:
        for i in range(args['n']):
            text, rules, opts, desc = make_case(r)
            wd = os.path.join(base, f'r{i}')
            run = realrun.run_ddsmt(
                wd, text, rules, opts=opts,
                launcher={'monitors': ['check', 'write'],
                          'check_filetext': True, 'write_text': True})
            shutil.rmtree(wd, ignore_errors=True)
            res.count('evaluations')
            res.count('real_runs')
            if run.timed_out:
                res.count('real_runs_timed_out')
                continue
            if run.uncaught_traceback:
                # an internal failure belongs to C04; what was rendered up to
                # there is still judged
                res.count('real_runs_with_internal_failure')
            judge(res, run, text, desc)
            if i < 1:
                res.sample({'real_run_input': text[:400], 'opts': opts})
    finally:
        shutil.rmtree(base, ignore_errors=True)
    return res.to_dict()


def run(ctx):
    n = 4 if ctx.tier == 'quick' else 150
    shards = [{'shard': i, 'n': n} for i in range(common.NCPU)]
    results = common.run_shards('checks.c07_real', shards, timeout=3400)
    common.merge_shards(ctx, results)
    if ctx.counters.get('real_renderings_judged', 0) == 0:
        ctx.inconclusive_because('no rendering of a real run was judged')
    if ctx.counters.get('real_runs_with_non_ascii_renderings', 0) == 0:
        ctx.inconclusive_because(
            'no real run rendered a character outside ASCII')
