/* vcmd - scripted "solver" for monitoring ddSMT from outside.
 *
 *   vcmd <specfile> [extra args ...] <file>
 *
 * Tokenises <file> with its own SMT-LIB lexer, evaluates the rules of the
 * spec on the token sequence only (so its behaviour is a function of the
 * token sequence: the class of commands the properties quantify over),
 * appends one JSON line to $VCMD_LOG (single write(2) on an O_APPEND fd) and
 * then behaves as the first matching rule says.
 *
 * Spec file: one rule per line, first match wins:
 *     <predicate in RPN> => exit=<n> out=<pct-text> err=<pct-text> [fault=<kind>] [delay=<us>]
 * Predicate atoms: all  has:T  count:T>=k  ntok>=k  ntok<=k  depth>=d
 *     hash:m:r1,r2,..  subseq:T1,T2,..  set:<path>  scoped  balanced
 *     first:T (first token after the first paren)  & | ! (RPN operators)
 * Token arguments are percent-encoded.  If no rule matches: exit 0, no output.
 * Faults: sleep spin1 spin4 alloc abort segv kill forksleep burn4:<cpu_ms>
 *   (burn4 uses that much CPU time on 4 threads and then behaves normally)
 * $VCMD_DELAY = "<seed>:<max_us>" adds a deterministic per-candidate delay.
 */
#define _GNU_SOURCE
#include <errno.h>
#include <fcntl.h>
#include <pthread.h>
#include <signal.h>
#include <stdint.h>
#include <stdio.h>
#include <stdlib.h>
#include <string.h>
#include <time.h>
#include <unistd.h>

typedef struct { char *s; size_t n; int comment; } tok_t;

static tok_t *toks; static size_t ntoks, captoks;
static char *text; static size_t textlen;

static void die(const char *m) { fprintf(stderr, "vcmd: %s\n", m); exit(97); }

static void addtok(const char *p, size_t n, int comment) {
  if (ntoks == captoks) {
    captoks = captoks ? captoks * 2 : 1024;
    toks = realloc(toks, captoks * sizeof(tok_t));
    if (!toks) die("oom");
  }
  char *s = malloc(n + 1);
  if (!s) die("oom");
  memcpy(s, p, n); s[n] = 0;
  toks[ntoks].s = s; toks[ntoks].n = n; toks[ntoks].comment = comment; ntoks++;
}

static int is_ws(char c) { return c == ' ' || c == '\t' || c == '\n' || c == '\r'; }
static int is_stop(char c) { return is_ws(c) || c == '(' || c == ')' || c == ';' || c == '"' || c == '|'; }

static void lex(void) {
  size_t i = 0, n = textlen;
  while (i < n) {
    char c = text[i];
    if (is_ws(c)) { i++; }
    else if (c == '(' || c == ')') { addtok(text + i, 1, 0); i++; }
    else if (c == ';') {
      size_t j = i; while (j < n && text[j] != '\n' && text[j] != '\r') j++;
      addtok(text + i, j - i, 1); i = j;
    } else if (c == '"') {
      size_t j = i + 1;
      for (;;) {
        if (j >= n) break;
        if (text[j] == '"') { if (j + 1 < n && text[j + 1] == '"') { j += 2; continue; } j++; break; }
        j++;
      }
      addtok(text + i, j - i, 0); i = j;
    } else if (c == '|') {
      size_t j = i + 1; while (j < n && text[j] != '|') j++;
      if (j < n) j++;
      addtok(text + i, j - i, 0); i = j;
    } else {
      size_t j = i + 1; while (j < n && !is_stop(text[j])) j++;
      addtok(text + i, j - i, 0); i = j;
    }
  }
}

static int is_fresh(const tok_t *t) {
  /* x[0-9]+__fresh */
  size_t n = t->n; const char *s = t->s;
  if (n < 9 || s[0] != 'x') return 0;
  if (strcmp(s + n - 7, "__fresh") != 0) return 0;
  for (size_t i = 1; i < n - 7; i++) if (s[i] < '0' || s[i] > '9') return 0;
  return n - 7 > 1;
}

static const char *canon(const tok_t *t) { return is_fresh(t) ? "x#__fresh" : t->s; }

#define FNV_OFF 0xcbf29ce484222325ULL
#define FNV_PRIME 0x100000001b3ULL

static uint64_t token_digest(void) {
  uint64_t h = FNV_OFF;
  for (size_t i = 0; i < ntoks; i++) {
    if (toks[i].comment) continue;
    const char *s = canon(&toks[i]);
    size_t n = is_fresh(&toks[i]) ? strlen(s) : toks[i].n;
    for (size_t k = 0; k < n; k++) { h ^= (unsigned char)s[k]; h *= FNV_PRIME; }
    h *= FNV_PRIME;
  }
  return h;
}

static uint64_t byte_digest(void) {
  uint64_t h = FNV_OFF;
  for (size_t k = 0; k < textlen; k++) { h ^= (unsigned char)text[k]; h *= FNV_PRIME; }
  return h;
}

static char *pctdecode(const char *s, size_t n) {
  char *o = malloc(n + 1); size_t j = 0;
  if (!o) die("oom");
  for (size_t i = 0; i < n; i++) {
    if (s[i] == '%' && i + 2 < n) {
      char hx[3] = { s[i + 1], s[i + 2], 0 };
      o[j++] = (char)strtol(hx, NULL, 16); i += 2;
    } else o[j++] = s[i];
  }
  o[j] = 0; return o;
}

/* ---- predicate atoms ---- */
static size_t ntok_nc(void) { size_t k = 0; for (size_t i = 0; i < ntoks; i++) if (!toks[i].comment) k++; return k; }

static long count_tok(const char *t) {
  long k = 0;
  for (size_t i = 0; i < ntoks; i++) if (!toks[i].comment && strcmp(canon(&toks[i]), t) == 0) k++;
  return k;
}

static long max_depth(void) {
  long d = 0, m = 0;
  for (size_t i = 0; i < ntoks; i++) {
    if (toks[i].comment) continue;
    if (toks[i].n == 1 && toks[i].s[0] == '(') { d++; if (d > m) m = d; }
    else if (toks[i].n == 1 && toks[i].s[0] == ')') d--;
  }
  return m;
}

static int balanced(void) {
  long d = 0;
  for (size_t i = 0; i < ntoks; i++) {
    if (toks[i].comment) continue;
    if (toks[i].n == 1 && toks[i].s[0] == '(') d++;
    else if (toks[i].n == 1 && toks[i].s[0] == ')') { d--; if (d < 0) return 0; }
  }
  return d == 0;
}

static int tok_is(size_t i, const char *s) { return i < ntoks && !toks[i].comment && strcmp(toks[i].s, s) == 0; }

/* scoped: parentheses balanced; every name declared at most once; every
 * occurrence, inside an assert, of a name that is declared somewhere in the
 * file or that looks like a fresh variable comes after its declaration. */
static int scoped(void) {
  if (!balanced()) return 0;
  /* collect declarations: position of "(" "declare-const|declare-fun|define-fun" NAME */
  size_t nd = 0, cap = 64;
  struct { const char *name; size_t pos; } *decl = malloc(cap * sizeof(*decl));
  /* work on a comment-free index */
  size_t *ix = malloc((ntoks + 1) * sizeof(size_t)), m = 0;
  for (size_t i = 0; i < ntoks; i++) if (!toks[i].comment) ix[m++] = i;
  for (size_t k = 0; k + 2 < m; k++) {
    if (tok_is(ix[k], "(") && (tok_is(ix[k + 1], "declare-const") || tok_is(ix[k + 1], "declare-fun") || tok_is(ix[k + 1], "define-fun"))) {
      const char *nm = toks[ix[k + 2]].s;
      if (strcmp(nm, "(") == 0 || strcmp(nm, ")") == 0) continue;
      for (size_t j = 0; j < nd; j++) if (strcmp(decl[j].name, nm) == 0) { free(decl); free(ix); return 0; }
      if (nd == cap) { cap *= 2; decl = realloc(decl, cap * sizeof(*decl)); }
      decl[nd].name = nm; decl[nd].pos = k + 2; nd++;
    }
  }
  int ok = 1;
  long depth = 0, assert_depth = -1;
  for (size_t k = 0; k < m && ok; k++) {
    const tok_t *t = &toks[ix[k]];
    if (t->n == 1 && t->s[0] == '(') {
      depth++;
      if (assert_depth < 0 && k + 1 < m && tok_is(ix[k + 1], "assert")) assert_depth = depth;
      continue;
    }
    if (t->n == 1 && t->s[0] == ')') {
      if (assert_depth == depth) assert_depth = -1;
      depth--; continue;
    }
    if (assert_depth < 0) continue;
    int declared_pos_ok = 0, is_declared_somewhere = 0;
    for (size_t j = 0; j < nd; j++) if (strcmp(decl[j].name, t->s) == 0) {
      is_declared_somewhere = 1;
      if (decl[j].pos < k) declared_pos_ok = 1;
    }
    if (is_declared_somewhere && !declared_pos_ok) ok = 0;
    if (!is_declared_somewhere && is_fresh(t)) ok = 0;
  }
  free(decl); free(ix);
  return ok;
}

static int in_set_file(const char *path, uint64_t td) {
  FILE *f = fopen(path, "r"); if (!f) die("cannot open set file");
  char line[128], want[32]; snprintf(want, sizeof want, "%016llx", (unsigned long long)td);
  int found = 0;
  while (fgets(line, sizeof line, f)) if (strncmp(line, want, 16) == 0) { found = 1; break; }
  fclose(f); return found;
}

static int subseq(char *list) {
  /* comma separated, each pct-encoded */
  size_t pos = 0;
  char *save = NULL;
  for (char *p = strtok_r(list, ",", &save); p; p = strtok_r(NULL, ",", &save)) {
    char *t = pctdecode(p, strlen(p));
    int found = 0;
    while (pos < ntoks) {
      if (!toks[pos].comment && strcmp(canon(&toks[pos]), t) == 0) { found = 1; pos++; break; }
      pos++;
    }
    free(t);
    if (!found) return 0;
  }
  return 1;
}

static uint64_t TD;
static long rule_delay_us = 0; /* fixed delay of the matching rule (behaviour item delay=<us>) */

static int eval_atom(char *a) {
  if (strcmp(a, "all") == 0) return 1;
  if (strcmp(a, "scoped") == 0) return scoped();
  if (strcmp(a, "balanced") == 0) return balanced();
  if (strncmp(a, "has:", 4) == 0) { char *t = pctdecode(a + 4, strlen(a + 4)); int r = count_tok(t) > 0; free(t); return r; }
  if (strncmp(a, "first:", 6) == 0) {
    char *t = pctdecode(a + 6, strlen(a + 6)); int r = 0; size_t seen = 0;
    for (size_t i = 0; i < ntoks; i++) { if (toks[i].comment) continue; if (seen == 1) { r = strcmp(toks[i].s, t) == 0; break; } seen++; }
    free(t); return r;
  }
  if (strncmp(a, "count:", 6) == 0) {
    char *ge = strstr(a + 6, ">="); if (!ge) die("bad count atom");
    char *t = pctdecode(a + 6, (size_t)(ge - (a + 6))); long k = atol(ge + 2);
    int r = count_tok(t) >= k; free(t); return r;
  }
  if (strncmp(a, "ntok>=", 6) == 0) return (long)ntok_nc() >= atol(a + 6);
  if (strncmp(a, "ntok<=", 6) == 0) return (long)ntok_nc() <= atol(a + 6);
  if (strncmp(a, "depth>=", 7) == 0) return max_depth() >= atol(a + 7);
  if (strncmp(a, "hash:", 5) == 0) {
    char *c = strchr(a + 5, ':'); if (!c) die("bad hash atom");
    unsigned long m = strtoul(a + 5, NULL, 10); if (!m) die("bad hash modulus");
    unsigned long res = (unsigned long)(TD % m);
    char *save = NULL;
    for (char *p = strtok_r(c + 1, ",", &save); p; p = strtok_r(NULL, ",", &save)) if (strtoul(p, NULL, 10) == res) return 1;
    return 0;
  }
  if (strncmp(a, "subseq:", 7) == 0) { char *l = strdup(a + 7); int r = subseq(l); free(l); return r; }
  if (strncmp(a, "set:", 4) == 0) return in_set_file(a + 4, TD);
  fprintf(stderr, "vcmd: unknown atom '%s'\n", a); exit(97);
}

static int eval_pred(char *pred) {
  int st[64], sp = 0; char *save = NULL;
  for (char *p = strtok_r(pred, " \t", &save); p; p = strtok_r(NULL, " \t", &save)) {
    if (strcmp(p, "&") == 0) { if (sp < 2) die("rpn underflow"); sp--; st[sp - 1] = st[sp - 1] && st[sp]; }
    else if (strcmp(p, "|") == 0) { if (sp < 2) die("rpn underflow"); sp--; st[sp - 1] = st[sp - 1] || st[sp]; }
    else if (strcmp(p, "!") == 0) { if (sp < 1) die("rpn underflow"); st[sp - 1] = !st[sp - 1]; }
    else { if (sp >= 64) die("rpn overflow"); st[sp++] = eval_atom(p); }
  }
  if (sp != 1) die("rpn: bad predicate");
  return st[0];
}

static void json_str(char **out, size_t *len, size_t *cap, const char *s) {
#define PUT(c) do { if (*len + 8 >= *cap) { *cap *= 2; *out = realloc(*out, *cap); } (*out)[(*len)++] = (c); } while (0)
  PUT('"');
  for (const unsigned char *p = (const unsigned char *)s; *p; p++) {
    if (*p == '"' || *p == '\\') { PUT('\\'); PUT(*p); }
    else if (*p < 0x20) { char b[8]; snprintf(b, sizeof b, "\\u%04x", *p); for (char *q = b; *q; q++) PUT(*q); }
    else PUT(*p);
  }
  PUT('"');
}

static void *spin(void *arg) { (void)arg; volatile unsigned long x = 0; for (;;) x++; return NULL; }

/* burn CPU on 4 threads until the *process* has used cpu_ms of CPU time, then
 * return (the caller goes on and behaves normally) */
static volatile int burn_stop = 0;
static void *burner(void *arg) { (void)arg; volatile unsigned long x = 0; while (!burn_stop) x++; return NULL; }
static void burn4(long cpu_ms) {
  pthread_t t[3];
  for (int i = 0; i < 3; i++) pthread_create(&t[i], NULL, burner, NULL);
  volatile unsigned long x = 0;
  for (;;) {
    for (int k = 0; k < 200000; k++) x++;
    struct timespec ts; clock_gettime(CLOCK_PROCESS_CPUTIME_ID, &ts);
    if (ts.tv_sec * 1000 + ts.tv_nsec / 1000000 >= cpu_ms) break;
  }
  burn_stop = 1;
  for (int i = 0; i < 3; i++) pthread_join(t[i], NULL);
}

static void do_fault(const char *f) {
  if (strcmp(f, "sleep") == 0) { for (;;) pause(); }
  if (strcmp(f, "spin1") == 0) { spin(NULL); }
  if (strcmp(f, "spin4") == 0) { pthread_t t; for (int i = 0; i < 3; i++) pthread_create(&t, NULL, spin, NULL); spin(NULL); }
  if (strcmp(f, "alloc") == 0) {
    /* allocate and touch memory; without a limit stop at 1 GiB and hang (the harness machine must survive) */
    for (size_t tot = 0;; tot += 16u << 20) {
      size_t sz = 16u << 20; char *p = malloc(sz);
      if (!p) { fprintf(stderr, "vcmd: out of memory\n"); exit(99); }
      memset(p, 1, sz);
      if (tot >= (1024u << 20)) for (;;) pause();
    }
  }
  if (strcmp(f, "forksleep") == 0) {
    /* a wrapper-script like command: a helper process inherits stdout and
       stderr and outlives the command itself */
    pid_t c = fork();
    if (c == 0) { execl("/bin/sleep", "sleep", "100000", (char *)NULL); _exit(127); }
    for (;;) pause();
  }
  if (strcmp(f, "abort") == 0) abort();
  if (strcmp(f, "segv") == 0) { signal(SIGSEGV, SIG_DFL); raise(SIGSEGV); }
  if (strcmp(f, "kill") == 0) { kill(getpid(), SIGKILL); for (;;) pause(); }
  fprintf(stderr, "vcmd: unknown fault '%s'\n", f); exit(97);
}

int main(int argc, char **argv) {
  /* A copy of this executable may carry its spec with it: a trailer
   * "\n#VCMD-SPEC:<path>\n" appended to the file.  Two such copies are two
   * different programs although they share the code (so a harness can tell
   * when the wrong executable was run); all arguments are then extra
   * arguments and the last one is the file. */
  static char embedded[1024];
  const char *specpath = NULL;
  {
    int efd = open("/proc/self/exe", O_RDONLY);
    if (efd >= 0) {
      char tail[1200]; off_t end = lseek(efd, 0, SEEK_END);
      off_t start = end > (off_t)sizeof tail - 1 ? end - ((off_t)sizeof tail - 1) : 0;
      ssize_t n = pread(efd, tail, (size_t)(end - start), start);
      close(efd);
      if (n > 0) {
        tail[n] = 0;
        for (ssize_t i = n - 1; i >= 0; i--) if (tail[i] == 0) tail[i] = 1;
        char *m = NULL, *q = tail;
        while ((q = strstr(q, "\n#VCMD-SPEC:")) != NULL) { m = q; q += 1; }
        if (m) {
          m += strlen("\n#VCMD-SPEC:");
          char *e = strchr(m, '\n');
          if (e && (size_t)(e - m) < sizeof embedded) { memcpy(embedded, m, (size_t)(e - m)); embedded[e - m] = 0; specpath = embedded; }
        }
      }
    }
  }
  if (argc < (specpath ? 2 : 3)) die("usage: vcmd <specfile> [args...] <file>");
  if (!specpath) specpath = argv[1];
  const char *file = argv[argc - 1];
  FILE *f = fopen(file, "rb"); if (!f) die("cannot open input file");
  fseek(f, 0, SEEK_END); long sz = ftell(f); fseek(f, 0, SEEK_SET);
  text = malloc((size_t)sz + 1); if (!text) die("oom");
  textlen = fread(text, 1, (size_t)sz, f); text[textlen] = 0; fclose(f);
  /* a NUL byte would cut C strings short: map to 0x01 for lexing purposes */
  for (size_t i = 0; i < textlen; i++) if (text[i] == 0) text[i] = 1;
  lex();
  TD = token_digest();
  uint64_t bd = byte_digest();

  FILE *sp = fopen(specpath, "r"); if (!sp) die("cannot open spec");
  char *line = NULL; size_t lcap = 0; ssize_t ll;
  int rule = -1, ruleno = 0, ex = 0; char *out = strdup(""), *err = strdup(""), *fault = NULL;
  while ((ll = getline(&line, &lcap, sp)) >= 0) {
    while (ll > 0 && (line[ll - 1] == '\n' || line[ll - 1] == '\r')) line[--ll] = 0;
    if (ll == 0 || line[0] == '#') continue;
    char *arrow = strstr(line, "=>"); if (!arrow) die("rule without =>");
    *arrow = 0; char *beh = arrow + 2;
    char *pred = strdup(line);
    int m = eval_pred(pred); free(pred);
    if (m) {
      rule = ruleno;
      char *save = NULL;
      for (char *p = strtok_r(beh, " \t", &save); p; p = strtok_r(NULL, " \t", &save)) {
        if (strncmp(p, "exit=", 5) == 0) ex = atoi(p + 5);
        else if (strncmp(p, "out=", 4) == 0) { free(out); out = pctdecode(p + 4, strlen(p + 4)); }
        else if (strncmp(p, "err=", 4) == 0) { free(err); err = pctdecode(p + 4, strlen(p + 4)); }
        else if (strncmp(p, "fault=", 6) == 0) fault = strdup(p + 6);
        else if (strncmp(p, "delay=", 6) == 0) rule_delay_us = atol(p + 6);
        else die("bad behaviour item");
      }
      break;
    }
    ruleno++;
  }
  fclose(sp);

  const char *logpath = getenv("VCMD_LOG");
  if (logpath && *logpath) {
    struct timespec ts; clock_gettime(CLOCK_MONOTONIC, &ts);
    size_t cap = 4096, len = 0; char *b = malloc(cap);
    len += (size_t)snprintf(b + len, cap - len, "{\"t\":%lld.%06ld,\"pid\":%d,\"ppid\":%d,\"bd\":\"%016llx\",\"td\":\"%016llx\",\"ntok\":%zu,\"rule\":%d,\"exit\":%d,\"fault\":",
        (long long)ts.tv_sec, ts.tv_nsec / 1000, (int)getpid(), (int)getppid(), (unsigned long long)bd, (unsigned long long)TD, ntok_nc(), rule, ex);
    json_str(&b, &len, &cap, fault ? fault : "");
    const char *k1 = ",\"out\":"; for (const char *q = k1; *q; q++) { if (len + 8 >= cap) { cap *= 2; b = realloc(b, cap); } b[len++] = *q; }
    json_str(&b, &len, &cap, out);
    const char *k2 = ",\"err\":"; for (const char *q = k2; *q; q++) { if (len + 8 >= cap) { cap *= 2; b = realloc(b, cap); } b[len++] = *q; }
    json_str(&b, &len, &cap, err);
    const char *k0 = ",\"spec\":"; for (const char *q = k0; *q; q++) { if (len + 8 >= cap) { cap *= 2; b = realloc(b, cap); } b[len++] = *q; }
    json_str(&b, &len, &cap, specpath);
    const char *k3 = ",\"argv\":["; for (const char *q = k3; *q; q++) { if (len + 8 >= cap) { cap *= 2; b = realloc(b, cap); } b[len++] = *q; }
    for (int i = 0; i < argc; i++) { if (i) { if (len + 8 >= cap) { cap *= 2; b = realloc(b, cap); } b[len++] = ','; } json_str(&b, &len, &cap, argv[i]); }
    if (len + 8 >= cap) { cap *= 2; b = realloc(b, cap); }
    b[len++] = ']'; b[len++] = '}'; b[len++] = '\n';
    int fd = open(logpath, O_WRONLY | O_APPEND | O_CREAT, 0644);
    if (fd >= 0) { ssize_t w = write(fd, b, len); (void)w; close(fd); }
    free(b);
  }

  const char *delay = getenv("VCMD_DELAY");
  if (delay && *delay) {
    unsigned long long seed = strtoull(delay, NULL, 10); const char *c = strchr(delay, ':');
    unsigned long maxus = c ? strtoul(c + 1, NULL, 10) : 0;
    if (maxus) {
      uint64_t h = TD ^ (seed * 0x9E3779B97F4A7C15ULL); h ^= h >> 29; h *= 0xBF58476D1CE4E5B9ULL; h ^= h >> 32;
      usleep((useconds_t)(h % maxus));
    }
  }

  if (rule_delay_us > 0) usleep((useconds_t)rule_delay_us);
  if (fault && strncmp(fault, "burn4:", 6) == 0) burn4(atol(fault + 6));
  else if (fault) do_fault(fault);
  fputs(out, stdout); fputs(err, stderr);
  fflush(stdout); fflush(stderr);
  return ex;
}
