#!/opt/veriftools/pyvenv/bin/python
"""Validate evidence/*.json against /root/.vp/EVIDENCE.schema.json."""
import glob, json, sys
import jsonschema
schema = json.load(open('/root/.vp/EVIDENCE.schema.json'))
bad = 0
for f in sorted(glob.glob('evidence/*.json')):
    d = json.load(open(f))
    try:
        jsonschema.validate(d, schema)
        c = d['coverage']
        print(f, 'ok', d['tier'], 'seed', d['seed'], 'eval', c['evaluations'], 'distinct', c['distinct_nontrivial'], 'viol', d.get('violations'))
    except jsonschema.ValidationError as e:
        bad += 1
        print(f, 'INVALID', e.message[:200])
sys.exit(1 if bad else 0)
