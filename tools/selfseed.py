#!/venv/bin/python
"""Mutation validation of the monitors with our own seeded breaks.

For every break: create a scratch worktree of /repo outside /repo and /verif,
apply the textual replacement, run the repository's 117 tests (a break the
tests catch is useless and reported as such), run the named checks against
the worktree (VERIF_REPO), report whether they fire, remove the worktree.

usage: tools/selfseed.py [name-substring ...]
"""
import json
import os
import shutil
import subprocess
import sys

VERIF = os.path.dirname(os.path.dirname(os.path.abspath(__file__)))

BREAKS = [
    # (name, checks, file, old, new)
    ('C01-drop-space-after-paren', ['C07', 'C01'], 'ddsmt/nodeio.py',
     "            file.write(')')\n            needs_space = True\n            continue\n\n        if needs_space:\n            file.write(' ')",
     "            file.write(')')\n            needs_space = False\n            continue\n\n        if needs_space:\n            file.write(' ')"),
    ('C01-write-previous-exprs', ['C01', 'C05'], 'ddsmt/strategy_hierarchical.py',
     "                        exprs = nodes.reduplicate(task.exprs)\n                        loop_checker.add(exprs)\n                        skip = task.nodeid - 1\n                        fresh_run = False\n                        nodeio.write_smtlib_to_file(options.args().outfile,\n                                                    exprs)",
     "                        nodeio.write_smtlib_to_file(options.args().outfile,\n                                                    exprs)\n                        exprs = nodes.reduplicate(task.exprs)\n                        loop_checker.add(exprs)\n                        skip = task.nodeid - 1\n                        fresh_run = False"),
    ('C02-skip-off-by-one', ['C02'], 'ddsmt/strategy_hierarchical.py',
     "                        skip = task.nodeid - 1\n                        fresh_run = False",
     "                        skip = task.nodeid\n                        fresh_run = False"),
    ('C02-no-fresh-run', ['C02'], 'ddsmt/strategy_hierarchical.py',
     "                if not reduction:\n                    if fresh_run:\n                        # this was a fresh run, continue with next pass\n                        break",
     "                if not reduction:\n                    if True:\n                        # this was a fresh run, continue with next pass\n                        break"),
    ('C03-constants-noop', ['C03'], 'ddsmt/mutators_core.py',
     "        res = get_default_constants(t)\n        if node in res:\n            return []",
     "        res = get_default_constants(t)"),
    ('C03-sortchildren-noop', ['C03'], 'ddsmt/mutators_core.py',
     "        if s != node:\n            return [Simplification({node.id: s}, [])]\n        return []",
     "        return [Simplification({node.id: s}, [])]"),
    ('C04-unguarded-producer', ['C04'], 'ddsmt/strategy_hierarchical.py',
     "            except Exception as e:\n                logging.info(f'{type(e)} in application of {m}: {e}')\n                exc_type, exc_value, exc_traceback = sys.exc_info()\n                traceback.print_tb(exc_traceback, limit=10, file=sys.stderr)\n\n    def generate",
     "            except AssertionError as e:\n                logging.info(f'{type(e)} in application of {m}: {e}')\n                exc_type, exc_value, exc_traceback = sys.exc_info()\n                traceback.print_tb(exc_traceback, limit=10, file=sys.stderr)\n\n    def generate"),
    ('C04-interrupt-returns-0', ['C04', 'C06'], 'ddsmt/__main__.py',
     "    except KeyboardInterrupt:\n        print(\"[ddsmt] interrupted\")",
     "    except KeyboardInterrupt:\n        print(\"[ddsmt] interrupted\")\n        return 0"),
    ('C05-adopt-second-success', ['C05'], 'ddsmt/strategy_ddmin.py',
     "                if result.success and not skip:",
     "                if result.success:"),
    ('C05-no-continue-after-abort', ['C05'], 'ddsmt/strategy_hierarchical.py',
     "                        skip = min(skip, task.nodeid - 1)\n                        continue",
     "                        skip = min(skip, task.nodeid - 1)"),
    ('C06-truncating-write', ['C06'], 'ddsmt/nodeio.py',
     "        with open(tmpname, 'w') as file:\n            write_smtlib(file, exprs)\n        os.replace(tmpname, filename)",
     "        with open(filename, 'w') as file:\n            write_smtlib(file, exprs)"),
    ('C06-replace-before-close', ['C06'], 'ddsmt/nodeio.py',
     "        with open(tmpname, 'w') as file:\n            write_smtlib(file, exprs)\n        os.replace(tmpname, filename)",
     "        with open(tmpname, 'w') as file:\n            os.replace(tmpname, filename)\n            write_smtlib(file, exprs)"),
    ('C07-pretty-indent', ['C07'], 'ddsmt/nodeio.py',
     "                file.write(f'{indent}{ex.data}\\n')",
     "                file.write(f'{indent}{ex.data.strip()}\\n')"),
    ('C08-quote-char', ['C08'], 'ddsmt/nodeio.py',
     "        if char in ('\"', '|'):", "        if char in ('\"', '|', \"'\"):"),
    ('C08-forget-pushback', ['C08'], 'ddsmt/nodeio.py',
     "                if char in ('(', ')', ';', '\"', '|'):\n                    pos -= 1\n                    break",
     "                if char in (')', ';', '\"', '|'):\n                    pos -= 1\n                    break\n                if char == '(':\n                    break"),
    ('C09-swap-ignore', ['C09'], 'ddsmt/checker.py',
     "            options.args().ignore_output or options.args().ignore_out,\n            options.args().ignore_output or options.args().ignore_err,",
     "            options.args().ignore_output or options.args().ignore_err,\n            options.args().ignore_output or options.args().ignore_out,"),
    ('C09-golden-for-cc', ['C09', 'C01'], 'ddsmt/checker.py',
     "        if not matches_golden(__GOLDEN_CC, ri,",
     "        if not matches_golden(__GOLDEN, ri,"),
    ('C09-fileext-from-outfile', ['C09'], 'ddsmt/tmpfiles.py',
     "    __FILEEXT = os.path.splitext(options.args().infile)[1]",
     "    __FILEEXT = os.path.splitext(options.args().outfile)[1]"),
    ('C10-wait-instead-of-kill', ['C10'], 'ddsmt/checker.py',
     "        proc.kill()\n", "        proc.wait()\n"),
    ('C10-timeout-matches-golden', ['C10'], 'ddsmt/checker.py',
     "        return RunInfo(proc.returncode, None, None, timeout)",
     "        return RunInfo(__GOLDEN.exit if __GOLDEN else None, None, None, timeout)"),
    ('C11-decls-at-front', ['C11', 'C15'], 'ddsmt/smtlib.py',
     "    return exprs[:pos] + vars + exprs[pos:]",
     "    return vars + exprs"),
    ('C11-lose-identity', ['C11'], 'ddsmt/nodes.py',
     "            if node == expr:\n                args[-1].append(expr)\n            else:\n                args[-1].append(node)",
     "            args[-1].append(node)"),
    ('C12-eq-no-len', ['C12'], 'ddsmt/nodes.py',
     "                if len(ns) != len(no):\n                    return False\n", ""),
    ('C12-bfs-order', ['C12'], 'ddsmt/nodes.py',
     "                visit.extend([(cur_depth + 1, x) for x in expr.data])\n        else:\n            yield expr\n\n\ndef substitute",
     "                visit.extendleft([(cur_depth + 1, x) for x in expr.data])\n        else:\n            yield expr\n\n\ndef substitute"),
    ('C13-no-reduplicate-hier', ['C13'], 'ddsmt/strategy_hierarchical.py',
     "                        exprs = nodes.reduplicate(task.exprs)",
     "                        exprs = task.exprs"),
    ('C14-attr-without-underscore', ['C14'], 'ddsmt/mutators.py',
     "                attr = f'mutator_{theory[1][m].replace(\"-\", \"_\")}'",
     "                attr = f'mutator_{theory[1][m]}'"),
    ('C14-disable-all-skips-strings', ['C14'], 'ddsmt/mutators.py',
     "    for theory_name, data in get_all_mutators().items():\n        setattr(namespace, f'mutators_{theory_name}', value)",
     "    for theory_name, data in get_all_mutators().items():\n        if theory_name == 'strings' and not value:\n            continue\n        setattr(namespace, f'mutators_{theory_name}', value)"),
    ('C15-varname-str', ['C15'], 'ddsmt/mutators_smtlib.py',
     "        varname = Node(f'x{node.id}__fresh')\n        if is_var(varname):\n            return []",
     "        varname = Node(f'x{node.id}__fresh')"),
    ('C16-extract-width', ['C16'], 'ddsmt/smtlib.py',
     "        return idx[0] - idx[1] + 1", "        return idx[0] - idx[1]"),
    ('C16-abs-real', ['C16'], 'ddsmt/smtlib.py',
     "                'div',\n                'mod',\n                'abs',",
     "                'div',\n                'mod',"),
    ('C17-demorgan', ['C17'], 'ddsmt/mutators_boolean.py',
     "        negated = [Node('not', t) for t in node[1][1:]]",
     "        negated = [Node('not', t) for t in node[1][1:-1]] + [node[1][-1]]"),
    ('C17-sign-extend', ['C17'], 'ddsmt/mutators_bv.py',
     "            if len(val_bin[2:]) == width and val_bin[2] == '1':",
     "            if val_bin[2] == '1':"),
    ('C18-set-order', ['C18'], 'ddsmt/smtlib.py',
     "    return [v for v in __sort_lookup if __sort_lookup[v] == var_sort]",
     "    return list(set(v for v in __sort_lookup if __sort_lookup[v] == var_sort))"),
]


def main():
    sel = sys.argv[1:]
    out = {}
    for name, checks, file, old, new in BREAKS:
        if sel and not any(s in name for s in sel):
            continue
        wt = f'/tmp/selfseed_{name}'
        subprocess.run(['git', '-C', '/repo', 'worktree', 'remove', '--force',
                        wt], capture_output=True)
        subprocess.run(['git', '-C', '/repo', 'worktree', 'add', '--detach',
                        wt, 'HEAD'], capture_output=True, check=True)
        try:
            p = os.path.join(wt, file)
            s = open(p).read()
            if old not in s:
                out[name] = 'PATTERN-NOT-FOUND'
                print(name, out[name], flush=True)
                continue
            open(p, 'w').write(s.replace(old, new, 1))
            t = subprocess.run(
                ['/venv/bin/python', '-m', 'pytest', '-q', '-p',
                 'no:cacheprovider', '-x'], cwd=wt, capture_output=True,
                text=True)
            tests_ok = '117 passed' in t.stdout
            row = {'tests_pass': tests_ok}
            if tests_ok:
                for c in checks:
                    env = dict(os.environ, VERIF_REPO=wt,
                               VERIF_EVIDENCE_DIR=f'/tmp/selfseed_ev',
                               VERIF_REPLAY_DIR=f'/tmp/selfseed_rp')
                    r = subprocess.run(['./check', c, 'quick'], cwd=VERIF,
                                       env=env, capture_output=True,
                                       text=True, timeout=3000)
                    keys = [l.strip()[:110] for l in r.stdout.splitlines()
                            if l.strip().startswith('key=')]
                    row[c] = {'exit': r.returncode, 'keys': keys[:4]}
            out[name] = row
            print(name, json.dumps(row), flush=True)
        finally:
            subprocess.run(['git', '-C', '/repo', 'worktree', 'remove',
                            '--force', wt], capture_output=True)
            shutil.rmtree('/tmp/selfseed_ev', ignore_errors=True)
            shutil.rmtree('/tmp/selfseed_rp', ignore_errors=True)
    path = os.path.join(VERIF, 'seeded', 'selfseed_results.json')
    old = {}
    if os.path.exists(path):
        with open(path) as f:
            old = json.load(f)
    old.update(out)
    with open(path, 'w') as f:
        json.dump(old, f, indent=1)


if __name__ == '__main__':
    main()
