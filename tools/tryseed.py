#!/venv/bin/python
"""Verify and archive a seeded change produced in a scratch worktree.

usage: tools/tryseed.py <name> <worktree> <property> [check ids...]

1. git diff of the worktree (tracked files) -> seeded/<name>/patch.diff,
   demo_seeded.py -> seeded/<name>/demo_seeded.py
2. in a *fresh* scratch worktree of /repo HEAD: the demo must exit 0 without
   the patch; with the patch: the 117 tests pass and the demo exits != 0
3. runs the given checks (default: the property's own) against the patched
   worktree through VERIF_REPO and records which fire
4. writes seeded/<name>/meta.json and removes the fresh worktree
"""
import json
import os
import shutil
import subprocess
import sys

VERIF = os.path.dirname(os.path.dirname(os.path.abspath(__file__)))


def sh(cmd, **kw):
    return subprocess.run(cmd, capture_output=True, text=True, **kw)


def main():
    name, wt, prop = sys.argv[1:4]
    checks = sys.argv[4:] or [prop]
    tier = os.environ.get('SEED_TIER', 'quick')
    d = os.path.join(VERIF, 'seeded', name)
    os.makedirs(d, exist_ok=True)
    if os.path.isdir(wt):
        diff = sh(['git', '-C', wt, 'diff']).stdout
        with open(os.path.join(d, 'patch.diff'), 'w') as f:
            f.write(diff)
        if os.path.exists(os.path.join(wt, 'demo_seeded.py')):
            shutil.copy(os.path.join(wt, 'demo_seeded.py'),
                        os.path.join(d, 'demo_seeded.py'))
    patch = os.path.join(d, 'patch.diff')
    demo = os.path.join(d, 'demo_seeded.py')
    fresh = f'/tmp/tryseed_{name}'
    sh(['git', '-C', '/repo', 'worktree', 'remove', '--force', fresh])
    sh(['git', '-C', '/repo', 'worktree', 'add', '--detach', fresh, 'HEAD'])
    meta = {'name': name, 'property': prop, 'checks_run': {}}
    try:
        # the demo refers to the agent's worktree path: rewrite it
        src = open(demo).read().replace(wt, fresh) if os.path.exists(
            demo) else None
        if src is not None:
            with open(os.path.join(fresh, 'demo_seeded.py'), 'w') as f:
                f.write(src)
            env = dict(os.environ, PYTHONPATH=fresh)
            r0 = sh(['/venv/bin/python', 'demo_seeded.py'], cwd=fresh,
                    env=env, timeout=1200)
            meta['demo_without_patch_exit'] = r0.returncode
        ap = sh(['git', '-C', fresh, 'apply', patch])
        meta['patch_applies'] = ap.returncode == 0
        if ap.returncode != 0:
            meta['apply_error'] = ap.stderr[-300:]
        t = sh(['/venv/bin/python', '-m', 'pytest', '-q', '-p',
                'no:cacheprovider'], cwd=fresh)
        meta['tests_with_patch'] = t.stdout.strip().splitlines()[-1] \
            if t.stdout.strip() else t.stderr[-200:]
        if src is not None:
            r1 = sh(['/venv/bin/python', 'demo_seeded.py'], cwd=fresh,
                    env=env, timeout=1200)
            meta['demo_with_patch_exit'] = r1.returncode
            meta['demo_with_patch_output'] = (r1.stdout + r1.stderr)[-600:]
        for c in checks:
            env = dict(os.environ, VERIF_REPO=fresh,
                       VERIF_EVIDENCE_DIR=f'/tmp/tryseed_ev_{name}',
                       VERIF_REPLAY_DIR=f'/tmp/tryseed_rp_{name}')
            r = sh(['./check', c, tier], cwd=VERIF, env=env, timeout=7000)
            keys = [l.strip()[:160] for l in r.stdout.splitlines()
                    if l.strip().startswith('key=')]
            meta['checks_run'][f'{c}:{tier}'] = {
                'exit': r.returncode, 'violation_keys': keys[:6],
                'last_line': r.stdout.strip().splitlines()[-1][:200]
                if r.stdout.strip() else ''}
    finally:
        sh(['git', '-C', '/repo', 'worktree', 'remove', '--force', fresh])
        shutil.rmtree(f'/tmp/tryseed_ev_{name}', ignore_errors=True)
        shutil.rmtree(f'/tmp/tryseed_rp_{name}', ignore_errors=True)
    mp = os.path.join(d, 'meta.json')
    old = {}
    if os.path.exists(mp):
        old = json.load(open(mp))
    old.update({k: v for k, v in meta.items() if k != 'checks_run'})
    old.setdefault('checks_run', {}).update(meta['checks_run'])
    with open(mp, 'w') as f:
        json.dump(old, f, indent=1)
    print(json.dumps(meta, indent=1))


if __name__ == '__main__':
    main()
