#!/usr/bin/env python3
"""tools/calib.py - print the calibration table of DESIGN 9.6 from the
evidence files of the last run (evaluations, a few decisive counters, wall)."""
import json
import os

HERE = os.path.dirname(os.path.dirname(os.path.abspath(__file__)))
PICK = {
    'C01': ['runs_with_output', 'runs_on_unbalanced_input', 'runs_on_wide_inputs', 'alias_runs'],
    'C02': ['sweeps', 'proposals_retested', 'second_runs', 'runs_chain_reborn'],
    'C03': ['bounded_progress_runs', 'cycles_confirmed'],
    'C04': ['usage_error_cases', 'isolation_cases', 'injected_mutator_exceptions'],
    'C05': ['writes_checked', 'derive_events', 'discarded_successes', 'write_faults_injected'],
    'C06': ['failpoints_visited', 'injected_interrupts', 'injected_interrupts_anywhere', 'reader_polls', 'prompt_write_runs_parallel_ddmin'],
    'C07': ['real_renderings_judged'],
    'C08': ['files_read_by_the_executable'],
    'C09': ['argv_runs', 'real_verdicts_judged'],
    'C10': ['match_string_cases', 'limit_cases'],
    'C11': ['candidates_compared_with_designated_place', 'real_steps_judged', 'real_steps_that_rename'],
    'C12': [],
    'C13': ['real_runs', 'shipped_inputs_checked'],
    'C14': ['traced_runs', 'traced_runs_with_a_failing_mutator', 'runs_checked_for_use_of_scheduled_mutators'],
    'C15': ['scripts_with_less_common_commands', 'scripts_with_comments_inside_terms', 'real_candidates_checked'],
    'C16': ['commented_variants', 'sort_right', 'sort_unknown'],
    'C17': ['commented_variants', 'judged_with_a_comment_inside_the_term', 'assignments_evaluated'],
    'C18': ['pairs_compared', 'schedules_compared', 'cases_with_fresh_names_in_output'],
}
print('| check | evaluations | distinct non-trivial | selected counters | wall |')
print('|---|---|---|---|---|')
for i in range(1, 19):
    pid = f'C{i:02d}'
    p = os.path.join(os.environ.get('VERIF_EVIDENCE_DIR', os.path.join(HERE, 'evidence')), pid + '.json')
    if not os.path.exists(p):
        continue
    e = json.load(open(p))
    c = e['coverage']
    cnt = c.get('counters', {})
    sel = ', '.join(f'{k} {cnt[k]}' for k in PICK.get(pid, []) if cnt.get(k))
    print(f"| {pid} | {c.get('evaluations')} | {c.get('distinct_nontrivial')} | {sel or '-'} | {e.get('wall_s', 0):.0f} s |")
