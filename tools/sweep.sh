#!/bin/bash
# usage: tools/sweep.sh <tier> <seed> [ids...]   - runs checks one after another, prints one line each
tier=$1; seed=$2; shift 2
ids=${@:-C01 C02 C03 C04 C05 C06 C07 C08 C09 C10 C11 C12 C13 C14 C15 C16 C17 C18}
./check --setup > /dev/null 2>&1
for id in $ids; do
  s=$(date +%s)
  out=$(VERIF_SEED=$seed ./check $id $tier 2>&1); rc=$?
  e=$(( $(date +%s) - s ))
  echo "seed=$seed $tier $id rc=$rc ${e}s :: $(echo "$out" | grep -E "^(VIOLATION|$id:)" | head -3 | tr '\n' ' ' | cut -c1-260)"
  echo "$out" | grep -E "^  key=" | head -5 | cut -c1-300
done
