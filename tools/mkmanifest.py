#!/venv/bin/python
"""Regenerates /verif/MANIFEST.json from the table below and validates it
against /root/.vp/MANIFEST.schema.json (if jsonschema is importable)."""
import json
import os
import sys

VERIF = os.path.dirname(os.path.dirname(os.path.abspath(__file__)))

BASE_TB = ('trusted base: vlib.refreader (independent SMT-LIB reader), the '
           'generators and reference models under vlib/, and for real runs '
           'the scripted command vcmd; all self-tested by ./check --setup')

CHECKS = {
    'C01': dict(
        cat='exploration',
        technique='offline oracle over command-side log and files of real '
        'end-to-end runs (incl. equally named command / cross-check '
        'executables that carry their spec)',
        text='Real bin/ddsmt runs over generated inputs x predicate families '
        'x strategies x -j x output formats x comparison options; afterwards '
        'the command and the cross-check command are re-run on the output '
        'file, its token digest is looked up among the candidates the '
        'command-side log shows as tested and accepted, and the input digest '
        'is compared.  Inputs include files whose failure is their '
        'unbalanced shape (no candidate can be accepted).  Held = on every '
        'observed run.',
        ref='3/C01'),
    'C02': dict(
        cat='exploration',
        technique='quiescent-point sweep with the real mutators and checker '
        'after reduce(); second real run on the output; constructed '
        'schedules (slow unique success as last result of a sweep; whitelist '
        'commands that force a history across the ddmin/hierarchical '
        'hand-over); the sweep does not depend on the pickle transport',
        text='After strategy_hierarchical.reduce returns inside the real '
        'process, a monitor re-enumerates every proposal of every enabled '
        'mutator on the final input and runs the real checker on each; in '
        'addition a second hierarchical run on the output must report that '
        'it cannot minimise.  Runs use -j 1..8 with injected delays.',
        ref='3/C02'),
    'C03': dict(
        cat='exploration',
        technique='proposal-graph search for no-ops/cycles/pumps with real '
        'mutators in both replace-by-variable modes (exhaustive depth 2 '
        'growth-first, growth-first depth 3-4, same-size depth 3-4, walks '
        'with all successors checked against the path), confirmation by real '
        'runs against a set: predicate, per-call step/allocation budgets via '
        'sys.monitoring (also on deep/wide terms), bounded progress of real '
        'runs',
        text='Termination is monitored as three refutable bounded '
        'statements: no one-step no-op or short cycle among proposals '
        '(exhaustive to depth 2 on tiny seeds, random walks on larger), '
        'bounded accepted steps in real runs with permissive predicates, and '
        'per-call step/allocation budgets for every mutator call.',
        ref='3/C03'),
    'C04': dict(
        cat='exploration',
        technique='black-box exit-status and uncaught-traceback monitor on '
        'the real executables over structure-fuzzed inputs and usage errors '
        '(15 cases x 2 entry points), non-text command output, injected '
        'failures of single checks; '
        'differential isolation oracle with exceptions injected into one '
        'mutator',
        text='The real bin/ddsmt and python -m ddsmt are run on well-formed, '
        'structure-fuzzed and unbalanced inputs with permissive predicates '
        '(so ddSMT itself walks through ill-formed intermediates) and on all '
        'usage-error cases; the monitor scans stderr for an uncaught '
        'traceback and checks the exit status against whether minimisation '
        'completed.',
        ref='3/C04'),
    'C05': dict(
        cat='exploration',
        technique='fault injection (one rewrite of the output file fails) + '
        'offline history checker (chain rule) over derive/write/'
        'command events of real parallel runs under delay injection',
        text='Events recorded at the worker boundary, at every output write '
        'and by the command itself are checked offline: every write must be '
        'derived from its predecessor by one accepted candidate the command '
        'really saw; the number of discarded concurrent successes observed '
        'is part of the verdict.',
        ref='3/C05'),
    'C06': dict(
        cat='fault_enumeration',
        technique='crash snapshot at every failpoint of every rewrite of the '
        'output file, injected interrupts/kills, real signals, live reader, '
        'strace rule, adoption-to-write promptness markers (sequential and '
        'parallel path of ddmin, hierarchical), injected interrupt at any '
        'statement of the reduction (sys.monitoring LINE failpoints)',
        text='At every LINE event inside write_smtlib_to_file the monitor '
        'reads the output file from disk (what a kill would leave and a '
        'reader would see) and compares it with the previous/next accepted '
        'input; interrupts are injected per point; SIGINT/SIGKILL at random '
        'instants; a polling reader runs alongside; a sample of runs under '
        'strace must show only renames onto the output file; between the '
        'adoption of a candidate and the rewrite no further result may be '
        'consumed.',
        ref='3/C06'),
    'C07': dict(
        cat='exploration',
        technique='reference lexer/reader as oracle over the four real '
        'renderers, on well-formed and cut-off/damaged texts; verbatim / '
        'subsequence oracle on every candidate file and output state of '
        'real runs (launcher hook) with multi-byte text',
        text='Trees produced by ddSMT\'s own parser from generated lexical '
        'corner cases are rendered by the four real renderers; an '
        'independent reader must get the same tokens and tree back from '
        'each.',
        ref='3/C07'),
    'C08': dict(
        cat='exploration',
        technique='reference reader vs parse_smtlib; pair grid enumerated '
        'exhaustively, plus random texts; black-box slice through the '
        'executable (--parser-test) on files with LF/CRLF/CR line ends',
        text='Independent SMT-LIB reader compared with parse_smtlib on the '
        'exhaustive grid of lexeme-class pairs x separators x positions and '
        'on random texts.',
        ref='3/C08'),
    'C09': dict(
        cat='exploration',
        technique='documented acceptance rule as executable oracle vs real '
        'checker.check with real sub-processes and vs every verdict of real '
        'parallel runs; argv from command log',
        text='The real do_golden_runs/check are driven with a scripted '
        'command whose exit code and streams are chosen per candidate; the '
        'verdict is compared with a 15-line statement of the documented '
        'rule over the full product of option settings and outcomes.',
        ref='3/C09'),
    'C10': dict(
        cat='fault_enumeration',
        technique='faulty commands (sleep/spin/alloc/abort/segv/kill) per '
        'candidate placement, in the command or the cross-check command; '
        'exec durations, verdicts, /proc liveness; minimisation outcome '
        'when the golden run itself crashes or exceeds the limit',
        text='Real runs in which chosen candidates make the command hang, '
        'spin, allocate or die; the monitor checks verdicts, the duration of '
        'every execute, that no command process survives, and the golden-run '
        'match-string rule.',
        ref='3/C10'),
    'C11': dict(
        cat='exploration',
        technique='in-worker monitor comparing every local candidate of real '
        'runs with its designated BFS position; '
        'nested-list substitution model vs apply_simp/substitute; '
        'identity and base-immutability assertions; the same model against '
        'the real ddmin _worker / hierarchical Consumer.check over '
        'histories of pickled inputs',
        text='Generated trees and simplifications (id keys, structural keys, '
        'self-containing replacements, deletions, declarations) applied by '
        'the real code and by an independent model; object identity of '
        'untouched subtrees and immutability of the base are asserted.',
        ref='3/C11'),
    'C12': dict(
        cat='exploration',
        technique='nested-list model vs Node API, in-process and across a '
        'fork pool; histories of pickled inputs through the real ddmin '
        'worker; re-duplication after a pickle round trip',
        text='Equality, hash, deepcopy, pickling through a real fork pool and '
        'all traversals/counters compared with a model on nested lists over '
        'random trees and near-equal pairs.',
        ref='3/C12'),
    'C13': dict(
        cat='exploration',
        technique='id-uniqueness invariant hooked at TaskGenerator/Producer '
        'construction in real runs (incl. runs in which fresh declarations '
        'are accepted or functions inlined); reduplicate vs model on DAGs '
        'and on histories of calls in one process; hook on the input '
        'pickled for the workers',
        text='In real runs every list handed to a task generator is checked '
        'for repeated node ids; reduplicate is compared with a model on '
        'generated DAGs with arbitrary sharing.',
        ref='3/C13'),
    'C14': dict(
        cat='exploration',
        technique='reference fold of the option sequence vs real pass lists; '
        'mutator-call and per-sweep application events of traced runs (incl. '
        'runs in which one mutator is made to fail in every call)',
        text='All single toggles and ordered pairs (exhaustive) and random '
        'longer sequences are parsed by the real option parser; the enabled '
        'set and the pass lists are compared with an independent fold; '
        'traced runs confirm that only those mutators are called, and that '
        'every scheduled one is consulted in a run that ends normally on a '
        'non-empty input, also while another one raises in every call.',
        ref='3/C14'),
    'C15': dict(
        cat='exploration',
        technique='applicability / lexical-closure / declaration oracle on '
        'every proposal of every mutator (API plane) and on every candidate '
        'of real hierarchical runs (launcher hook)',
        text='Every proposal of every mutator on generated scripts (and '
        'their partially reduced forms) is applied and rendered; keys must '
        'exist, the result must re-parse to itself, introduced declarations '
        'must be new and precede their use.',
        ref='3/C15'),
    'C16': dict(
        cat='exploration',
        technique='generator typing as ground truth (also on variants with a '
        'comment inside a term) vs get_sort/get_bv_width '
        'at every term position over sequences of scripts in one process, '
        'incl. terms nested beyond the recursion limit; '
        'cvc5 as reference sort checker for same-sort replacements; '
        'answers-now vs answers-after-fresh-collection invariant hooked '
        'into real runs, snapshots re-answered by a fresh interpreter',
        text='Typed script generator knows the sort of every subterm; '
        'get_sort/get_bv_width must answer unknown or that sort.',
        ref='3/C16'),
    'C17': dict(
        cat='exploration',
        technique='independent SMT-LIB evaluator (also on instances with a '
        'comment inside the term) on (subterm, replacement) '
        'pairs under exhaustive/sampled assignments; definition-to-inline '
        'vs definition-in-input invariant hooked into real runs',
        text='Instances for each identity mutator are generated, the real '
        'mutations() proposals are evaluated before/after by an independent '
        'evaluator under all (small domains) or sampled assignments.',
        ref='3/C17'),
    'C18': dict(
        cat='exploration',
        technique='equality of write chains and output bytes over repeated '
        '-j1 runs perturbed in hash seed, pids and timing (incl. a family '
        'whose fresh names are parse-time ids; consistent-renaming test at '
        'the first differing write)',
        text='Each case is run 4 times with different PYTHONHASHSEED, command '
        'delays and injected delays; the sequences of written contents and '
        'the final bytes must be identical; a difference is attributed to '
        'the known naming mechanism only if the two files agree under a '
        'consistent renaming of the fresh variables.',
        ref='3/C18'),
}


def implemented():
    out = []
    for pid in sorted(CHECKS):
        if os.path.exists(os.path.join(VERIF, 'checks', pid.lower() + '.py')):
            out.append(pid)
    return out


def main():
    impl = implemented()
    checks = []
    for pid in impl:
        c = CHECKS[pid]
        checks.append({
            'property_id': pid,
            'quick_cmd': f'./check {pid} quick',
            'thorough_cmd': f'./check {pid} thorough',
            'evidence_file': f'evidence/{pid}.json',
            'replay_cmd_template': f'./check {pid} --replay {{path}}',
            'engine': 'vmon',
            'level_claimed': {
                'category': c['cat'],
                'text': c['text'],
                'design_ref': f'DESIGN.md section {c["ref"]}',
            },
            'level_note': BASE_TB,
            'technique': c['technique'],
        })
    na = [{
        'property_id': pid,
        'reason': 'check not built yet (work in progress; the technique '
        'applies, see DESIGN.md)'
    } for pid in sorted(CHECKS) if pid not in impl]
    manifest = {
        'version': 1,
        'setup_cmd': './check --setup',
        'hooks': {
            'guard': 'DDSMT_VERIF',
            'enable': 'no source hooks: monitors live in the /verif launcher '
            '(vlib/vlaunch.py) which wraps module attributes of the ddsmt '
            'package imported from /repo; DDSMT_VERIF selects them',
            'baseline_off_cmd': 'cd /repo && /venv/bin/python -m pytest -ra '
            '-q -p no:cacheprovider --timeout=900 '
            '--continue-on-collection-errors',
            'source_commits': [],
            'add_only': True,
        },
        'engines': [{
            'name': 'vmon',
            'path': 'vlib/',
            'serves_properties': impl,
            'kind_free_text': 'runtime monitors: reference-model oracles on '
            'the real API, black-box run harness with a scripted command, '
            'in-process launcher with wrappers and sys.monitoring failpoints'
        }],
        'checks': checks,
        'not_applicable': na,
        'notes': 'Runtime monitoring only.  Exit 0 = held on what was '
        'observed (or only known findings), 1 = VIOLATION, 2 = inconclusive/'
        'broken harness.  VERIF_SEED seeds all PRNGs.',
    }
    path = os.path.join(VERIF, 'MANIFEST.json')
    with open(path, 'w') as f:
        json.dump(manifest, f, indent=1)
    try:
        sys.path.insert(0, '/opt/veriftools/pyvenv/lib/python3.11/site-packages')
        import jsonschema
        with open('/root/.vp/MANIFEST.schema.json') as f:
            jsonschema.validate(manifest, json.load(f))
        print('MANIFEST.json valid;', len(checks), 'checks,', len(na),
              'not claimed')
    except ImportError:
        print('MANIFEST.json written (jsonschema not importable)')


if __name__ == '__main__':
    main()
