#!/venv/bin/python
"""tools/mkagent.py <Cxx> <worktree> [previous-sites text]
Prints the prompt for an independent seeding agent: the property text only
(title, statement, quantifier), the worktree, and optionally the sites other
agents already used (for diversity).  Nothing from /verif is disclosed."""
import json
import os
import sys

VERIF = os.path.dirname(os.path.dirname(os.path.abspath(__file__)))
pid, wt = sys.argv[1], sys.argv[2]
prev = sys.argv[3] if len(sys.argv) > 3 else ''
for line in open(os.path.join(VERIF, 'properties.jsonl')):
    p = json.loads(line)
    if p['id'] == pid:
        break
else:
    sys.exit('no such property')
prop = (f"{p['id']} - {p['title']}\n\nSTATEMENT: {p['statement']}\n\n"
        f"QUANTIFIER: {p['quantifier']['text']}\n")
if prev:
    prop += (
        '\n\nIMPORTANT - diversity: other engineers already used these '
        f'changes for this property: {prev}. Do NOT use those sites or close '
        'variants; find a different mechanism, preferably in a different '
        'function or file. Strongly preferred: something that needs a '
        'multi-step history, an unusual input, a schedule / interleaving, a '
        'fault at a particular point, or two cooperating sites - not a '
        'special option value alone.\n')
t = open(os.path.join(VERIF, 'tools', 'agent_prompt.txt')).read()
print(t.replace('{WT}', wt).replace('{PROP}', prop))
