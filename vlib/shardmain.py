"""Entry point of one shard sub-process: ``python -m vlib.shardmain <module>
<in.json> <out.json>`` calls ``<module>.shard(args)`` and stores its result."""
import importlib
import json
import os
import sys


def main():
    module, inp, out = sys.argv[1:4]
    # ddsmt.debug_utils parses sys.argv at import time
    sys.argv = ['ddsmt', 'in.smt2', 'out.smt2', 'cmd']
    with open(inp) as f:
        args = json.load(f)
    mod = importlib.import_module(module)
    res = mod.shard(args)
    tmp = out + '.tmp'
    with open(tmp, 'w') as f:
        json.dump(res, f, default=str)
    os.replace(tmp, out)
    # skip finalizers (multiprocessing pools of the code under test may
    # block in them); the result is on disk
    sys.stdout.flush()
    sys.stderr.flush()
    os._exit(0)


if __name__ == '__main__':
    main()
