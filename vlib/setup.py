"""./check --setup: build vcmd and run the trusted-base self-tests."""
import os
import subprocess
import sys

from . import common


def build_vcmd(force=False):
    """Compile vcmd (and an ASan/UBSan variant) into build/.  Returns the path
    of the plain binary."""
    src = os.path.join(common.VERIF, 'vcmd', 'vcmd.c')
    if not os.path.exists(src):
        return None
    os.makedirs(common.BUILD_DIR, exist_ok=True)
    out = os.path.join(common.BUILD_DIR, 'vcmd')
    if force or not os.path.exists(out) or \
            os.path.getmtime(out) < os.path.getmtime(src):
        tmp = out + f'.tmp{os.getpid()}'
        subprocess.run(
            ['gcc', '-O2', '-static', '-pthread', '-o', tmp, src],
            check=True)
        os.replace(tmp, out)
    return out


def build_vcmd_asan():
    src = os.path.join(common.VERIF, 'vcmd', 'vcmd.c')
    out = os.path.join(common.BUILD_DIR, 'vcmd-asan')
    if not os.path.exists(out) or \
            os.path.getmtime(out) < os.path.getmtime(src):
        tmp = out + f'.tmp{os.getpid()}'
        subprocess.run([
            'clang-14', '-O1', '-g', '-fsanitize=address,undefined',
            '-fno-sanitize-recover=all', '-pthread', '-o', tmp, src
        ],
                       check=True)
        os.replace(tmp, out)
    return out


def selftest(verbose=False):
    from . import gen_lex
    n = gen_lex.selftest()
    if verbose:
        print(f'gen_lex/refreader: {n} round trips ok')
    try:
        from . import selftests
    except ImportError:
        selftests = None
    if selftests:
        rc = selftests.run(verbose)
        if rc:
            return rc
    return 0


def main():
    build_vcmd(force=True)
    rc = selftest(verbose=True)
    print('setup', 'ok' if rc == 0 else 'FAILED')
    return rc
