"""C02 observer (i): quiescent-point sweep run inside the real ddSMT process
right after strategy_hierarchical.reduce() returned.

Re-enumerates, with the real mutators, every proposal on the final input and
runs the real checker on each.  Mirrors what ddSMT itself does with a
proposal (pickle round trip, apply_simp, exceptions cost only that
candidate).
"""
import pickle
import time


def enabled_classes(mods):
    """Classes enabled according to the option namespace and the registries
    (computed here, not taken from ddSMT's pass list)."""
    (checker, nodeio, nodes, ddmin, hier, mutators, mutator_utils, options,
     tmpfiles, smtlib) = mods
    out = []
    for group, (mod, reg) in mutators.get_all_mutators().items():
        for cname, opt in reg.items():
            attr = 'mutator_' + opt.replace('-', '_')
            if getattr(options.args(), attr):
                out.append(getattr(mod, cname))
    return out


def proposals(m, node, final, nodes):
    """[(kind, simp)] of mutator instance m at node; exceptions end the
    enumeration for this mutator (as in Producer.__mutate_node)."""
    out = []
    try:
        if hasattr(m, 'filter') and not m.filter(node):
            return out, None
        if hasattr(m, 'mutations'):
            for x in m.mutations(node):
                out.append(('local', x))
        if hasattr(m, 'global_mutations'):
            for x in m.global_mutations(node, final):
                out.append(('global', x))
    except Exception as e:  # noqa
        return out, f'{type(e).__name__}'
    return out, None


def run(mods, final, emit, config):
    (checker, nodeio, nodes, ddmin, hier, mutators, mutator_utils, options,
     tmpfiles, smtlib) = mods
    from vlib import refreader
    t0 = time.monotonic()
    smtlib.collect_information(final)
    # The candidates are built as ddSMT builds them (input and proposal go
    # through pickle).  If that transport itself fails, the proposal is
    # applied directly: whether the result is a fixed point of the enabled
    # mutators does not depend on how ddSMT ships its data around.
    transport_failures = 0
    try:
        pickled = pickle.dumps(final)
        base = pickle.loads(pickled)
    except Exception:  # noqa
        transport_failures += 1
        base = final
    limit = config.get('sweep_limit', 20000)
    plans = []  # (label, instance, max_depth)
    for cls in enabled_classes(mods):
        plans.append((cls.__name__, cls(), None))
    for ps in hier.get_passes():
        params = {}
        if isinstance(ps, tuple):
            ps, params = ps
        for m in ps:
            if getattr(m, '__dict__', None):
                # a configured instance (e.g. ident=assert)
                plans.append((f'{type(m).__name__}{sorted(vars(m).items())}',
                              m, params.get('max_depth')))
    tested = 0
    per_mut = {}
    accepted = []
    exceptions = {}
    done_labels = set()
    for label, m, md in plans:
        if (label, md) in done_labels:
            continue
        done_labels.add((label, md))
        for idx, node in enumerate(nodes.bfs(final, md)):
            props, exc = proposals(m, node, final, nodes)
            if exc:
                exceptions[f'{label}:{exc}'] = exceptions.get(
                    f'{label}:{exc}', 0) + 1
            for kind, simp in props:
                if tested >= limit:
                    break
                try:
                    try:
                        simp2 = pickle.loads(pickle.dumps(simp))
                    except Exception:  # noqa
                        transport_failures += 1
                        simp2 = simp
                    cand = mutator_utils.apply_simp(base, simp2)
                    ok = checker.check_exprs(cand)
                except Exception as e:  # noqa
                    exceptions[f'{label}:apply:{type(e).__name__}'] = \
                        exceptions.get(f'{label}:apply:{type(e).__name__}',
                                       0) + 1
                    continue
                tested += 1
                per_mut[label] = per_mut.get(label, 0) + 1
                if ok:
                    try:
                        ctext = nodeio.write_smtlib_to_str(cand)
                    except Exception:  # noqa
                        ctext = None
                    accepted.append({
                        'mutator': label,
                        'kind': kind,
                        'node_index': idx,
                        'node': str(node)[:200],
                        'candidate': ctext[:2000] if ctext else None,
                        'max_depth': md,
                    })
                    if len(accepted) >= 5:
                        break
            if len(accepted) >= 5 or tested >= limit:
                break
        if len(accepted) >= 5 or tested >= limit:
            break
    # restore the information ddSMT expects (it is done with it, but be tidy)
    smtlib.collect_information(final)
    emit('sweep',
         tested=tested,
         per_mutator=per_mut,
         accepted=accepted,
         exceptions=exceptions,
         transport_failures=transport_failures,
         truncated=tested >= limit,
         nodes=nodes.count_nodes(final),
         dur=time.monotonic() - t0)
