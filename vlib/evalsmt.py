"""Independent evaluator for SMT-LIB terms given as nested lists.

Supports Core, Ints, Reals (exact fractions), FixedSizeBitVectors, datatypes,
uninterpreted functions (lazily filled tables), let (parallel, lexically
scoped), quantifiers over finite domains (Bool, small bit-vectors, nullary
datatypes), define-fun applications (parameters bound, body evaluated in the
global environment), ite, annotations.  Values carry their sort, so a change
of sort is a change of value.

Values:  ('Bool', b) ('Int', n) ('Real', Fraction) ('BV', w, v)
         ('DT', sortname, constructor, (args...)) ('U', sortname, k)
"""
import itertools
import re
from fractions import Fraction


class Unsupported(Exception):
    pass


def B(b):
    return ('Bool', bool(b))


def bv(w, v):
    return ('BV', w, v & ((1 << w) - 1))


def signed(w, v):
    return v - (1 << w) if v >> (w - 1) & 1 else v


class World:
    """Declarations of a script: datatypes, defined functions, declared
    symbols with their sorts."""

    def __init__(self, script_nested=()):
        self.dts = {}  # sort name -> [(cons, [(sel, sort nested)])]
        self.cons = {}  # cons -> (sort name, [(sel, sort)])
        self.sels = {}  # sel -> (cons, index, sort nested)
        self.defs = {}  # name -> ([(param, sort)], res sort, body)
        self.consts = {}  # name -> sort nested
        self.funs = {}  # name -> ([arg sorts], res sort)
        self.usorts = set()
        for c in script_nested:
            self.add(c)

    def add(self, c):
        if not isinstance(c, list) or not c:
            return
        h = c[0]
        if h == 'declare-const':
            self.consts[c[1]] = c[2]
        elif h == 'declare-fun':
            if c[2]:
                self.funs[c[1]] = (c[2], c[3])
            else:
                self.consts[c[1]] = c[3]
        elif h == 'define-fun':
            self.defs[c[1]] = (c[2], c[3], c[4])
        elif h == 'declare-sort':
            self.usorts.add(c[1])
        elif h == 'declare-datatype':
            self._add_dt(c[1], c[2])
        elif h == 'declare-datatypes':
            for (name, _), body in zip(c[1], c[2]):
                self._add_dt(name, body)

    def _add_dt(self, name, body):
        conss = []
        for cd in body:
            cn = cd[0]
            sels = [(s[0], s[1]) for s in cd[1:]]
            conss.append((cn, sels))
            self.cons[cn] = (name, sels)
            for i, (s, so) in enumerate(sels):
                self.sels[s] = (cn, i, so)
        self.dts[name] = conss

    # -- domains and defaults ----------------------------------------------
    def default(self, sort):
        if sort == 'Bool':
            return B(False)
        if sort == 'Int':
            return ('Int', 0)
        if sort == 'Real':
            return ('Real', Fraction(0))
        if isinstance(sort, list) and sort[:2] == ['_', 'BitVec']:
            return bv(int(sort[2]), 0)
        if isinstance(sort, str) and sort in self.dts:
            for cn, sels in self.dts[sort]:
                if not sels:
                    return ('DT', sort, cn, ())
            cn, sels = self.dts[sort][0]
            return ('DT', sort, cn, tuple(self.default(so) for _, so in sels))
        if isinstance(sort, str) and sort in self.usorts:
            return ('U', sort, 0)
        raise Unsupported(f'default of sort {sort!r}')

    def domain(self, sort, limit=4096):
        """Finite list of all values of the sort, or None."""
        if sort == 'Bool':
            return [B(False), B(True)]
        if isinstance(sort, list) and sort[:2] == ['_', 'BitVec']:
            w = int(sort[2])
            if (1 << w) <= limit:
                return [bv(w, v) for v in range(1 << w)]
            return None
        if isinstance(sort, str) and sort in self.dts:
            if all(not sels for _, sels in self.dts[sort]):
                return [('DT', sort, cn, ()) for cn, _ in self.dts[sort]]
        return None

    def sample(self, sort, r, depth=2):
        """A random value of the sort (boundary values preferred)."""
        if sort == 'Bool':
            return B(r.random() < 0.5)
        if sort == 'Int':
            return ('Int', r.choice([0, 1, -1, 2, -2, 3, 7, -7, 10, 100, -100,
                                     r.randint(-50, 50)]))
        if sort == 'Real':
            return ('Real', r.choice([
                Fraction(0), Fraction(1), Fraction(-1), Fraction(1, 2),
                Fraction(-3, 4), Fraction(5, 2), Fraction(r.randint(-20, 20),
                                                          r.randint(1, 8))
            ]))
        if isinstance(sort, list) and sort[:2] == ['_', 'BitVec']:
            w = int(sort[2])
            return bv(
                w,
                r.choice([0, 1, (1 << w) - 1, 1 << (w - 1),
                          (1 << (w - 1)) - 1,
                          r.getrandbits(w)]))
        if isinstance(sort, str) and sort in self.dts:
            conss = self.dts[sort]
            if depth <= 0:
                nullary = [c for c in conss if not c[1]]
                if nullary:
                    cn, _ = r.choice(nullary)
                    return ('DT', sort, cn, ())
            cn, sels = r.choice(conss)
            return ('DT', sort, cn,
                    tuple(self.sample(so, r, depth - 1) for _, so in sels))
        if isinstance(sort, str) and sort in self.usorts:
            return ('U', sort, r.randint(0, 2))
        raise Unsupported(f'sample of sort {sort!r}')


class Env:
    """Assignment to free symbols + lazily filled UF tables."""

    def __init__(self, world, r, values=None):
        self.world = world
        self.r = r
        self.values = dict(values or {})
        self.tables = {}

    def const(self, name):
        if name not in self.values:
            self.values[name] = self.world.sample(self.world.consts[name],
                                                  self.r)
        return self.values[name]

    def apply_uf(self, name, args):
        t = self.tables.setdefault(name, {})
        if args not in t:
            t[args] = self.world.sample(self.world.funs[name][1], self.r)
        return t[args]


_NUM = re.compile(r'^[0-9]+$')
_DEC = re.compile(r'^[0-9]+\.[0-9]+$')


def evaluate(t, env, scope=None):  # noqa: C901
    """Value of nested term ``t``.  ``scope``: dict of bound names (let /
    quantifier / parameters) -> value; looked up before the environment."""
    w = env.world
    scope = scope or {}
    if isinstance(t, str):
        if t in scope:
            return scope[t]
        if t == 'true':
            return B(True)
        if t == 'false':
            return B(False)
        if _NUM.match(t):
            return ('Int', int(t))
        if _DEC.match(t):
            return ('Real', Fraction(t))
        if t.startswith('#b'):
            return bv(len(t) - 2, int(t[2:], 2))
        if t.startswith('#x'):
            return bv(4 * (len(t) - 2), int(t[2:], 16))
        if t in w.defs:
            params, _, body = w.defs[t]
            if params:
                raise Unsupported('function symbol used as a value')
            return evaluate(body, env, {})
        if t in w.consts:
            return env.const(t)
        if t in w.cons:
            return ('DT', w.cons[t][0], t, ())
        raise Unsupported(f'symbol {t!r}')
    if not t:
        raise Unsupported('empty application')
    h = t[0]
    E = lambda x: evaluate(x, env, scope)  # noqa: E731
    if isinstance(h, list):
        # indexed operators
        if h[0] == '_':
            op = h[1]
            if op == 'extract':
                hi, lo = int(h[2]), int(h[3])
                _, ww, v = E(t[1])
                if not (0 <= lo <= hi < ww):
                    raise Unsupported('ill-formed extract')
                return bv(hi - lo + 1, v >> lo)
            if op == 'zero_extend':
                _, ww, v = E(t[1])
                return bv(ww + int(h[2]), v)
            if op == 'sign_extend':
                _, ww, v = E(t[1])
                return bv(ww + int(h[2]), signed(ww, v))
            if op == 'repeat':
                _, ww, v = E(t[1])
                k = int(h[2])
                out = 0
                for _i in range(k):
                    out = (out << ww) | v
                return bv(ww * k, out)
            if op in ('rotate_left', 'rotate_right'):
                _, ww, v = E(t[1])
                k = int(h[2]) % ww
                if op == 'rotate_right':
                    k = (ww - k) % ww
                return bv(ww, (v << k) | (v >> (ww - k)))
            if op == 'divisible':
                _, v = E(t[1])
                return B(v % int(h[2]) == 0)
            if op == 'is':
                v = E(t[1])
                return B(v[2] == h[2])
        raise Unsupported(f'head {h!r}')
    if h == '_':
        if len(t) == 3 and t[1].startswith('bv'):
            return bv(int(t[2]), int(t[1][2:]))
        raise Unsupported(f'indexed constant {t!r}')
    if h == '!':
        return E(t[1])
    if h == 'let':
        new = dict(scope)
        for name, term in t[1]:
            new[name] = E(term)  # parallel: evaluated in the outer scope
        return evaluate(t[2], env, new)
    if h in ('forall', 'exists'):
        doms = []
        for name, sort in t[1]:
            d = w.domain(sort, 64)
            if d is None:
                raise Unsupported(f'quantifier over {sort!r}')
            doms.append(d)
        results = []
        for combo in itertools.product(*doms):
            new = dict(scope)
            for (name, _), v in zip(t[1], combo):
                new[name] = v
            results.append(evaluate(t[2], env, new)[1])
        return B(all(results) if h == 'forall' else any(results))
    if h == 'ite':
        c = E(t[1])
        return E(t[2]) if c[1] else E(t[3])
    if h in scope:
        raise Unsupported('application of a bound name')
    if h in w.defs:
        params, _, body = w.defs[h]
        if len(params) != len(t) - 1:
            raise Unsupported('arity')
        args = [E(a) for a in t[1:]]
        # the body is closed except for its parameters
        return evaluate(body, env, {p[0]: a for p, a in zip(params, args)})
    if h in w.funs:
        return env.apply_uf(h, tuple(E(a) for a in t[1:]))
    if h in w.cons:
        sort, sels = w.cons[h]
        if len(sels) != len(t) - 1:
            raise Unsupported('constructor arity')
        return ('DT', sort, h, tuple(E(a) for a in t[1:]))
    if h in w.sels:
        cn, i, so = w.sels[h]
        v = E(t[1])
        if v[2] == cn:
            return v[3][i]
        return w.default(so)  # unspecified: any fixed function will do
    args = [E(a) for a in t[1:]]
    return apply_op(h, args)


def apply_op(h, a):  # noqa: C901
    if h == 'not':
        return B(not a[0][1])
    if h == 'and':
        return B(all(x[1] for x in a))
    if h == 'or':
        return B(any(x[1] for x in a))
    if h == 'xor':
        v = False
        for x in a:
            v ^= x[1]
        return B(v)
    if h == '=>':
        v = a[-1][1]
        for x in reversed(a[:-1]):
            v = (not x[1]) or v
        return B(v)
    if h == '=':
        return B(all(x == a[0] for x in a[1:]))
    if h == 'distinct':
        return B(len(set(a)) == len(a))
    kind = a[0][0] if a else None
    if kind in ('Int', 'Real'):
        vals = [x[1] for x in a]
        if h == '+':
            return (kind, sum(vals[1:], vals[0]))
        if h == '-':
            if len(vals) == 1:
                return (kind, -vals[0])
            out = vals[0]
            for v in vals[1:]:
                out -= v
            return (kind, out)
        if h == '*':
            out = vals[0]
            for v in vals[1:]:
                out *= v
            return (kind, out)
        if h in ('<', '<=', '>', '>='):
            import operator
            f = {'<': operator.lt, '<=': operator.le, '>': operator.gt,
                 '>=': operator.ge}[h]
            return B(all(f(x, y) for x, y in zip(vals, vals[1:])))
        if h == 'div':
            out = vals[0]
            for d in vals[1:]:
                if d == 0:
                    out = 0
                else:
                    q = out // d if d > 0 else -(out // -d)
                    out = q
            return ('Int', out)
        if h == 'mod':
            x, d = vals
            if d == 0:
                return ('Int', x)
            return ('Int', x - abs(d) * (x // abs(d)))
        if h == 'abs':
            return ('Int', abs(vals[0]))
        if h == '/':
            out = Fraction(vals[0])
            for d in vals[1:]:
                out = out / d if d != 0 else Fraction(0)
            return ('Real', out)
        if h == 'to_real':
            return ('Real', Fraction(vals[0]))
        if h == 'to_int':
            return ('Int', vals[0].numerator // vals[0].denominator)
        if h == 'is_int':
            return B(Fraction(vals[0]).denominator == 1)
    if kind == 'BV':
        w = a[0][1]
        vs = [x[2] for x in a]
        if h == 'concat':
            out = 0
            tw = 0
            for x in a:
                out = (out << x[1]) | x[2]
                tw += x[1]
            return bv(tw, out)
        if h == 'bvnot':
            return bv(w, ~vs[0])
        if h == 'bvneg':
            return bv(w, -vs[0])
        if h in ('bvand', 'bvor', 'bvxor', 'bvadd', 'bvmul'):
            out = vs[0]
            for v in vs[1:]:
                if h == 'bvand':
                    out &= v
                elif h == 'bvor':
                    out |= v
                elif h == 'bvxor':
                    out ^= v
                elif h == 'bvadd':
                    out += v
                else:
                    out *= v
            return bv(w, out)
        x = vs[0]
        y = vs[1] if len(vs) > 1 else None
        m = (1 << w) - 1
        if h == 'bvsub':
            return bv(w, x - y)
        if h == 'bvnand':
            return bv(w, ~(x & y))
        if h == 'bvnor':
            return bv(w, ~(x | y))
        if h == 'bvxnor':
            return bv(w, ~(x ^ y))
        if h == 'bvudiv':
            return bv(w, m if y == 0 else x // y)
        if h == 'bvurem':
            return bv(w, x if y == 0 else x % y)
        if h == 'bvshl':
            return bv(w, x << y if y < w else 0)
        if h == 'bvlshr':
            return bv(w, x >> y if y < w else 0)
        if h == 'bvashr':
            sx = signed(w, x)
            return bv(w, sx >> min(y, w))
        if h == 'bvcomp':
            return bv(1, 1 if x == y else 0)
        sx, sy = signed(w, x), (signed(w, y) if y is not None else None)

        def udiv(p, q):
            return m if q == 0 else p // q

        def urem(p, q):
            return p if q == 0 else p % q

        if h == 'bvsdiv':
            ax, ay = abs(sx), abs(sy)
            q = udiv(ax & m, ay & m)
            if (sx < 0) != (sy < 0):
                q = -q
            return bv(w, q)
        if h == 'bvsrem':
            ax, ay = abs(sx), abs(sy)
            rr = urem(ax & m, ay & m)
            return bv(w, -rr if sx < 0 else rr)
        if h == 'bvsmod':
            ax, ay = abs(sx) & m, abs(sy) & m
            u = urem(ax, ay)
            if u == 0:
                return bv(w, 0)
            if sx >= 0 and sy >= 0:
                return bv(w, u)
            if sx < 0 and sy >= 0:
                return bv(w, -u + y)
            if sx >= 0 and sy < 0:
                return bv(w, u + y)
            return bv(w, -u)
        if h in ('bvult', 'bvule', 'bvugt', 'bvuge'):
            return B({'bvult': x < y, 'bvule': x <= y, 'bvugt': x > y,
                      'bvuge': x >= y}[h])
        if h in ('bvslt', 'bvsle', 'bvsgt', 'bvsge'):
            return B({'bvslt': sx < sy, 'bvsle': sx <= sy, 'bvsgt': sx > sy,
                      'bvsge': sx >= sy}[h])
    raise Unsupported(f'operator {h!r} on {kind}')


def value_to_nested(v):
    """A literal term for value v (used to cross-check against z3)."""
    k = v[0]
    if k == 'Bool':
        return 'true' if v[1] else 'false'
    if k == 'Int':
        return str(v[1]) if v[1] >= 0 else ['-', str(-v[1])]
    if k == 'Real':
        f = v[1]
        num = f'{abs(f.numerator)}.0'
        t = num if f.denominator == 1 else ['/', num, f'{f.denominator}.0']
        return t if f >= 0 else ['-', t]
    if k == 'BV':
        return ['_', f'bv{v[2]}', str(v[1])]
    if k == 'DT':
        return v[2] if not v[3] else [v[2]] + [value_to_nested(x)
                                                for x in v[3]]
    raise Unsupported(str(v))


def free_consts(t, world, bound=frozenset(), out=None):
    """Declared constants and UFs occurring free in t."""
    out = set() if out is None else out
    if isinstance(t, str):
        if t not in bound and (t in world.consts):
            out.add(t)
        elif t not in bound and t in world.defs:
            free_consts(world.defs[t][2], world,
                        frozenset(p[0] for p in world.defs[t][0]), out)
        return out
    if not t:
        return out
    h = t[0]
    if h == 'let':
        for _, term in t[1]:
            free_consts(term, world, bound, out)
        free_consts(t[2], world, bound | {n for n, _ in t[1]}, out)
        return out
    if h in ('forall', 'exists'):
        free_consts(t[2], world, bound | {n for n, _ in t[1]}, out)
        return out
    if isinstance(h, str) and h in world.defs and h not in bound:
        free_consts(world.defs[h][2], world,
                    frozenset(p[0] for p in world.defs[h][0]), out)
    if isinstance(h, str) and h in world.funs and h not in bound:
        out.add(h)
    for x in t[1:] if isinstance(h, str) else t:
        if isinstance(x, (list, str)):
            free_consts(x, world, bound, out)
    return out
