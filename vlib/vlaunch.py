"""Launcher that runs the real ddSMT (imported from the repository under test)
inside a monitored process, without touching its sources.

    python -m vlib.vlaunch <ddsmt arguments ...>

It does what bin/ddsmt does (fork start method, repository first on
sys.path, command line in place before anything is imported), then wraps
module attributes according to $VLAUNCH_CONFIG (a JSON file) and calls the
real ddsmt.__main__.main().  Worker processes are forked and inherit the
wrappers.  Every process appends JSON events to the event log with one
write(2) per event on an O_APPEND descriptor; time stamps come from
CLOCK_MONOTONIC, which is shared across processes.
"""
import json
import os
import sys
import threading
import time

CONFIG = {}
_EV_FD = None
_COUNTS = {}
_STATE = {'write_seq': 0, 'in_write': None, 'gen_seq': 0}


def emit(_event_name, **kw):
    if _EV_FD is None:
        return
    kw['ev'] = _event_name
    kw['t'] = time.monotonic()
    kw['pid'] = os.getpid()
    kw['tid'] = threading.get_ident()
    try:
        os.write(_EV_FD, (json.dumps(kw, default=str) + '\n').encode())
    except OSError:
        pass


def bump(name, n=1):
    _COUNTS[name] = _COUNTS.get(name, 0) + n


# -- digests ---------------------------------------------------------------
def leaf_tokens(exprs):
    from vlib import refreader
    return refreader.flatten(refreader.from_nodes(exprs))


def leaf_digest(exprs):
    """Digest of the token sequence as the tree states it (comments dropped,
    fresh names canonicalised)."""
    from vlib import refreader
    toks = [t for t in leaf_tokens(exprs) if not refreader.is_comment(t)]
    return '%016x' % refreader.fnv1a(refreader.canon_fresh(toks))


def text_digest(text):
    from vlib import refreader
    return refreader.token_digest(text)


def read_file(path):
    try:
        with open(path, 'rb') as f:
            return f.read()
    except FileNotFoundError:
        return None


def dup_ids(exprs):
    seen = set()
    dups = 0
    n = 0
    stack = list(exprs)
    while stack:
        x = stack.pop()
        n += 1
        if x.id in seen:
            dups += 1
        seen.add(x.id)
        if not isinstance(x.data, str):
            stack.extend(x.data)
    return n, dups


# -- installation of wrappers ---------------------------------------------
def install(mods):
    import pickle
    (checker, nodeio, nodes, ddmin, hier, mutators, mutator_utils, options,
     tmpfiles, smtlib) = mods
    mon = set(CONFIG.get('monitors', []))

    # ---- fault injection into the check of single candidates (C04: an
    # environmental failure while one candidate is written or run - disk
    # full, the copied command vanished - costs that candidate only)
    if CONFIG.get('break_check'):
        bc = CONFIG['break_check']
        orig_check_exprs_f = checker.check_exprs

        def check_exprs_faulty(exprs):
            h = int(leaf_digest(exprs), 16) ^ (bc.get('seed', 0) * 2654435761)
            if (h % 1000) < bc.get('per_mille', 100):
                emit('injected_check_fault', ld=leaf_digest(exprs))
                raise OSError(28, 'No space left on device (injected)')
            return orig_check_exprs_f(exprs)

        checker.check_exprs = check_exprs_faulty

    # ---- checker.check_exprs / execute
    if 'check' in mon:
        orig_check_exprs = checker.check_exprs

        def check_exprs(exprs):
            t0 = time.monotonic()
            ld = leaf_digest(exprs)
            res = orig_check_exprs(exprs)
            txt = read_file(tmpfiles.get_tmp_filename())
            td = text_digest(txt.decode('utf-8', 'replace')) \
                if txt is not None else None
            extra = {}
            if CONFIG.get('check_text'):
                # the candidate as the tree states it (for oracles that
                # evaluate the scripted command on it)
                try:
                    from vlib import refreader
                    extra['text'] = refreader.render(
                        refreader.from_nodes(exprs))
                except Exception as e:  # noqa
                    extra['text_error'] = repr(e)
            if CONFIG.get('check_filetext') and txt is not None and \
                    len(txt) <= 20000:
                # the bytes the command was given, and the leaves of the
                # tree they were rendered from (C07 on real candidates)
                extra['ftext'] = txt.decode('utf-8', 'surrogateescape')
                try:
                    extra['leaves'] = leaf_tokens(exprs)
                except Exception as e:  # noqa
                    extra['leaves_error'] = repr(e)
            emit('check', ld=ld, td=td, verdict=bool(res),
                 dur=time.monotonic() - t0, **extra)
            return res

        checker.check_exprs = check_exprs

    if 'exec' in mon:
        orig_execute = checker.execute

        def execute(cmd, filename, timeout):
            t0 = time.monotonic()
            emit('exec_start', argv=list(cmd) + [filename], timeout=timeout)
            ri = orig_execute(cmd, filename, timeout)
            emit('exec',
                 argv=list(cmd) + [filename],
                 timeout=timeout,
                 exit=ri.exit,
                 out=None if ri.out is None else ri.out[:200],
                 err=None if ri.err is None else ri.err[:200],
                 timed_out=ri.out is None,
                 dur=time.monotonic() - t0)
            return ri

        checker.execute = execute

    # ---- output writes
    if 'write' in mon:
        orig_write = nodeio.write_smtlib_to_file

        def write_smtlib_to_file(filename, exprs):
            _STATE['write_seq'] += 1
            seq = _STATE['write_seq']
            before = read_file(filename)
            try:
                expected = nodeio.write_smtlib_to_str(exprs).encode()
            except Exception:  # noqa
                expected = None
            _STATE['in_write'] = {
                'seq': seq,
                'file': filename,
                'before': before,
                'expected': expected,
                'line': 0
            }
            emit('write_start', seq=seq, ld=leaf_digest(exprs))
            fw = CONFIG.get('fail_write')
            patched = False
            if fw and fw.get('write') == seq:
                # the file system fails for this rewrite: whatever the writer
                # opens besides the output file itself cannot be created
                import errno

                def failing_open(path, *a, **kw):
                    if str(path) != str(filename):
                        emit('injected_write_fault', seq=seq, path=str(path))
                        raise OSError(errno.ENOSPC,
                                      'No space left on device', str(path))
                    return open(path, *a, **kw)

                nodeio.open = failing_open
                patched = True
            try:
                return orig_write(filename, exprs)
            finally:
                if patched:
                    del nodeio.open
                nlines = _STATE['in_write']['line']
                _STATE['in_write'] = None
                after = read_file(filename)
                import hashlib
                emit('write',
                     seq=seq,
                     bd=None if after is None else hashlib.blake2b(
                         after, digest_size=8).hexdigest(),
                     lines=nlines,
                     has_fresh=(after is not None and b'__fresh' in after),
                     text=(after.decode('utf-8', 'replace')
                           if after is not None and len(after) <= 6000
                           and CONFIG.get('write_text') else None),
                     ld=leaf_digest(exprs),
                     leaves=(leaf_tokens(exprs)
                             if CONFIG.get('write_text')
                             and CONFIG.get('check_filetext') else None),
                     td=None if after is None else text_digest(
                         after.decode('utf-8', 'replace')),
                     nbytes=None if after is None else len(after),
                     as_expected=(after == expected),
                     thread_is_main=threading.current_thread() is
                     threading.main_thread())

        nodeio.write_smtlib_to_file = write_smtlib_to_file

    # ---- derivations at the worker boundary
    if 'derive' in mon:
        orig_worker = ddmin._worker
        cache = {}

        def base_digest(pickled_or_list):
            if isinstance(pickled_or_list, bytes):
                h = hash(pickled_or_list)
                if cache.get('h') != h:
                    cache['h'] = h
                    cache['d'] = leaf_digest(pickle.loads(pickled_or_list))
                return cache['d']
            return leaf_digest(pickled_or_list)

        def _worker(task):
            base = base_digest(task.exprs)
            res = orig_worker(task)
            # what the worker really worked on (its private cache of the
            # unpickled input), if the implementation still keeps one
            used = None
            if isinstance(task.exprs, bytes):
                cached = vars(ddmin).get('__cached_exprs')
                if cached is not None:
                    try:
                        used = leaf_digest(cached)
                    except Exception:  # noqa
                        used = None
            emit('derive',
                 strategy='ddmin',
                 task=task.id,
                 base=base,
                 used_base=used,
                 success=bool(res.success),
                 cand=leaf_digest(res.exprs) if res.success else None,
                 tests=res.tests,
                 nsimps=None)
            return res

        # the pool pickles the function by qualified name
        _worker.__module__ = orig_worker.__module__
        _worker.__qualname__ = orig_worker.__qualname__
        ddmin._worker = _worker

        orig_cons_check = hier.Consumer.check

        def cons_check(self, task):
            base = base_digest(task.exprs)
            out = orig_cons_check(self, task)
            success, rtask = pickle.loads(out)
            emit('derive',
                 strategy='hierarchical',
                 task=task.nodeid,
                 name=task.name,
                 base=base,
                 success=bool(success),
                 aborted=(rtask.runtime is None),
                 cand=leaf_digest(rtask.exprs) if success else None)
            return out

        # bound methods are pickled by the function's __name__
        cons_check.__name__ = 'check'
        cons_check.__qualname__ = 'Consumer.check'
        cons_check.__module__ = orig_cons_check.__module__
        hier.Consumer.check = cons_check

    # ---- the designated place (C11): a candidate of strategy hierarchical
    # that was computed for BFS node k of its base changes that place only
    if 'designated' in mon:
        from collections import deque
        from vlib import refmodel as _rm
        orig_apply_d = hier.apply_simp
        orig_cc_d = hier.Consumer.check

        def cc_designated(self, task):
            _STATE['task_nodeid'] = task.nodeid
            _STATE['task_name_d'] = task.name
            try:
                return orig_cc_d(self, task)
            finally:
                _STATE['task_nodeid'] = None

        cc_designated.__name__ = 'check'
        cc_designated.__qualname__ = 'Consumer.check'
        cc_designated.__module__ = orig_cc_d.__module__
        hier.Consumer.check = cc_designated

        def replace_at(tree, path, repl):
            tree = list(tree)
            if len(path) == 1:
                if repl is None:
                    del tree[path[0]]
                else:
                    tree[path[0]] = repl
                return tree
            tree[path[0]] = replace_at(tree[path[0]], path[1:], repl)
            return tree

        def apply_designated(exprs, simp):
            # (the substitution is used up by applying it)
            subs = getattr(simp, 'substs', None)
            subs = dict(subs) if isinstance(subs, dict) else None
            base = _rm.to_nested_list(exprs) \
                if subs and len(subs) == 1 else None
            out = orig_apply_d(exprs, simp)
            try:
                k = _STATE.get('task_nodeid')
                if k and isinstance(subs, dict) and len(subs) == 1 and \
                        not getattr(simp, 'fresh_vars', None):
                    key, repl = next(iter(subs.items()))
                    if isinstance(key, int):
                        q = deque(((i, ), e) for i, e in enumerate(exprs))
                        n = 0
                        where = None
                        while q:
                            path, nd = q.popleft()
                            n += 1
                            if n == k:
                                where = (path, nd)
                                break
                            if not nd.is_leaf():
                                q.extend((path + (i, ), c)
                                         for i, c in enumerate(nd.data))
                        if where is None or where[1].id != key:
                            emit('designated', located=False)
                        else:
                            emit('designated', located=True)
                            exp = replace_at(
                                base, where[0],
                                None if repl is None else _rm.to_nested(repl))
                            got = _rm.to_nested_list(out) \
                                if isinstance(out, list) else None
                            if got != exp:
                                emit('designated_mismatch',
                                     name=_STATE.get('task_name_d'),
                                     nodeid=k, path=list(where[0]),
                                     base=repr(base)[:1200],
                                     expected=repr(exp)[:1200],
                                     got=repr(got)[:1200])
            except Exception as e:  # noqa
                emit('monitor_error', where='designated',
                     error=f'{type(e).__name__}: {e}')
            return out

        hier.apply_simp = apply_designated

    # ---- lexical closure / re-declaration of every hierarchical candidate
    if 'closure' in mon:
        from vlib import refreader, refmodel
        orig_apply = hier.apply_simp
        orig_cc = hier.Consumer.check

        def declared_counts(exprs):
            c = {}
            for e in exprs:
                d = getattr(e, 'data', None)
                arity = {'declare-const': 3, 'declare-fun': 4,
                         'define-fun': 5}
                if isinstance(d, tuple) and len(d) >= 2 and \
                        isinstance(d[0].data, str) and \
                        arity.get(d[0].data) == len(d) \
                        and isinstance(d[1].data, str):
                    c[d[1].data] = c.get(d[1].data, 0) + 1
            return c

        def apply_checked(exprs, simp):
            out = orig_apply(exprs, simp)
            try:
                emit('cand_checked')
                name = _STATE.get('task_name')
                if isinstance(out, list) and out is not exprs:
                    # declarations the proposal itself introduces must be
                    # of symbols the input does not declare yet
                    before = declared_counts(exprs)
                    again = []
                    for v in getattr(simp, 'fresh_vars', []) or []:
                        d = getattr(v, 'data', None)
                        if isinstance(d, tuple) and len(d) >= 2 and \
                                isinstance(d[1].data, str) and \
                                before.get(d[1].data, 0) >= 1:
                            again.append(d[1].data)
                    if again:
                        emit('badcand', kind='redeclares-existing-symbol',
                             mutator=name, symbols=again[:4],
                             text=nodeio.write_smtlib_to_str(out)[:1500])
                    text = nodeio.write_smtlib_to_str(out)
                    tree = refreader.norm_tree(refmodel.to_nested_list(out))
                    try:
                        back = refreader.norm_tree(refreader.read(text))
                    except refreader.LexError:
                        back = None
                    if back != tree:
                        emit('badcand', kind='not-lexically-closed',
                             mutator=name, text=text[:1500])
            except Exception as e:  # noqa
                emit('monitor_error', where='closure', error=repr(e))
            return out

        hier.apply_simp = apply_checked

        def cc_named(self, task):
            _STATE['task_name'] = task.name
            return orig_cc(self, task)

        cc_named.__name__ = 'check'
        cc_named.__qualname__ = 'Consumer.check'
        cc_named.__module__ = orig_cc.__module__
        hier.Consumer.check = cc_named

    # ---- generators (C13 hook) and ddmin task mutator join
    if 'gen' in mon:
        orig_tg_init = ddmin.TaskGenerator.__init__

        def tg_init(self, exprs, gran, mutator, max_depth=None):
            _STATE['gen_seq'] += 1
            n, d = dup_ids(exprs)
            emit('gen', gkind='TaskGenerator', seq=_STATE['gen_seq'], nodes=n,
                 dup_ids=d, base=leaf_digest(exprs),
                 mutator=type(mutator).__name__, gran=gran)
            out = orig_tg_init(self, exprs, gran, mutator, max_depth)
            shipped_check(self, 'TaskGenerator.__init__')
            return out

        def id_list(exprs):
            out = []
            stack = list(reversed(exprs))
            while stack:
                x = stack.pop()
                out.append(x.id)
                if not isinstance(x.data, str):
                    stack.extend(reversed(x.data))
            return out

        def shipped_check(tg, where):
            # what the workers get with every task (if anything is pickled
            # for them) has to be the input of the round itself: the same
            # tree with the same identities, each of them once
            try:
                blob = getattr(tg, 'pickled_exprs', None)
                if not blob:
                    return
                shipped = pickle.loads(blob)
                n2, d2 = dup_ids(shipped)
                emit('gen_shipped', where=where, nodes=n2, dup_ids=d2,
                     same_tokens=(leaf_digest(shipped) ==
                                  leaf_digest(tg.exprs)),
                     same_ids=(id_list(shipped) == id_list(tg.exprs)))
            except Exception as e:  # noqa
                emit('monitor_error', where='gen_shipped', error=repr(e))

        ddmin.TaskGenerator.__init__ = tg_init
        orig_tg_update = ddmin.TaskGenerator.update

        def tg_update(self, exprs):
            out = orig_tg_update(self, exprs)
            shipped_check(self, 'TaskGenerator.update')
            return out

        ddmin.TaskGenerator.update = tg_update

        orig_prod_init = hier.Producer.__init__

        def prod_init(self, muts, abort_flag, original):
            _STATE['gen_seq'] += 1
            n, d = dup_ids(original)
            emit('gen', gkind='Producer', seq=_STATE['gen_seq'], nodes=n,
                 dup_ids=d, base=leaf_digest(original),
                 mutators=[type(m).__name__ for m in muts])
            return orig_prod_init(self, muts, abort_flag, original)

        hier.Producer.__init__ = prod_init

    # ---- the answers of the symbol tables must be those for the *current*
    # input (C16/C17 in real runs): wherever the main thread starts to
    # generate simplifications for an input, the answers ddSMT would give now
    # (defined functions, sorts of all subterms) are compared with the
    # answers after a fresh collect_information on that very input; the
    # tables themselves are put back afterwards, so the run is not healed
    if 'tables' in mon:
        TABLES = ['__constants', '__defined_functions',
                  '__definition_node_ids', '__sort_lookup', '__indices',
                  '__get_sort_cache', '__datatypes_constants',
                  '__datatypes_constructors', '__datatypes_selectors']

        def answers(exprs):
            from vlib import refreader
            defs = {}
            for k, v in vars(smtlib)['__defined_functions'].items():
                try:
                    cmd = v[1].__defaults__[0]
                    defs[str(k)] = (v[0], refreader.render(
                        refreader.from_nodes([cmd])).strip())
                except Exception as e:  # noqa
                    defs[str(k)] = ('?', repr(e))
            sorts = []
            for n in nodes.dfs(exprs):
                try:
                    so = smtlib.get_sort(n)
                    sorts.append(None if so is None else str(so))
                except Exception as e:  # noqa
                    sorts.append('!' + type(e).__name__)
            return defs, sorts

        def tables_check(exprs, where):
            if threading.current_thread() is not threading.main_thread():
                return
            key = (id(exprs), leaf_digest(exprs))
            if _STATE.get('tables_last') == key:
                return
            _STATE['tables_last'] = key
            try:
                old_defs, old_sorts = answers(exprs)
                saved = {k: vars(smtlib)[k] for k in TABLES}
                try:
                    smtlib.collect_information(exprs)
                    new_defs, new_sorts = answers(exprs)
                finally:
                    for k, v in saved.items():
                        setattr(smtlib, k, v)
                stale_defs = [
                    (k, old_defs[k][1], new_defs[k][1]) for k in old_defs
                    if k in new_defs and old_defs[k] != new_defs[k]]
                terms = list(nodes.dfs(exprs))
                stale_sorts = [
                    (str(terms[i])[:80], o, n_)
                    for i, (o, n_) in enumerate(zip(old_sorts, new_sorts))
                    if o is not None and not str(o).startswith('!') and
                    not str(n_).startswith('!') and o != n_]
                # the same answers for a fresh process to recompute: within
                # this process a table that is never reset stays invisible
                _STATE['tables_n'] = _STATE.get('tables_n', 0) + 1
                if _STATE['tables_n'] in (1, 2, 3, 5, 8, 13, 21, 34, 55, 89,
                                          144, 233, 377, 610, 987):
                    try:
                        snap = nodeio.write_smtlib_to_str(exprs)
                        if len(snap) <= 20000:
                            emit('tables_snapshot', where=where, text=snap,
                                 sorts=old_sorts, defs=old_defs)
                    except Exception as e:  # noqa
                        emit('monitor_error', where='tables-snapshot',
                             error=repr(e))
                emit('tables', where=where, nodes=len(terms),
                     defs=len(new_defs), known_sorts=sum(
                         1 for x in new_sorts if x is not None),
                     stale_defs=stale_defs[:3], stale_sorts=stale_sorts[:3],
                     base=leaf_digest(exprs))
            except Exception as e:  # noqa
                emit('monitor_error', where='tables', error=repr(e))

        orig_tg_init_t = ddmin.TaskGenerator.__init__

        def tg_init_t(self, exprs, gran, mutator, max_depth=None):
            tables_check(exprs, 'TaskGenerator.__init__')
            return orig_tg_init_t(self, exprs, gran, mutator, max_depth)

        ddmin.TaskGenerator.__init__ = tg_init_t
        orig_tg_next_t = ddmin.TaskGenerator.__next__

        def tg_next_t(self):
            if not self.stopped:
                tables_check(self.exprs, 'TaskGenerator.__next__')
            return orig_tg_next_t(self)

        ddmin.TaskGenerator.__next__ = tg_next_t
        orig_prod_init_t = hier.Producer.__init__

        def prod_init_t(self, muts, abort_flag, original):
            tables_check(original, 'Producer.__init__')
            return orig_prod_init_t(self, muts, abort_flag, original)

        hier.Producer.__init__ = prod_init_t

    if 'redup' in mon:
        orig_redup = nodes.reduplicate

        def reduplicate(exprs):
            n0, d0 = dup_ids(exprs)
            before = leaf_digest(exprs)
            out = orig_redup(exprs)
            n1, d1 = dup_ids(out)
            emit('redup', dups_before=d0, dups_after=d1,
                 same_tokens=(leaf_digest(out) == before), nodes=n1)
            return out

        nodes.reduplicate = reduplicate

    # ---- adoption / result-consumption markers (C06: the write must follow
    # the adoption before any further result is consumed)
    if 'adopt' in mon:
        orig_redup2 = nodes.reduplicate

        def reduplicate_marked(exprs):
            out = orig_redup2(exprs)
            if _STATE.get('in_hier_reduce') and \
                    threading.current_thread() is threading.main_thread():
                emit('adopt', strategy='hierarchical', ld=leaf_digest(out))
            return out

        nodes.reduplicate = reduplicate_marked
        orig_update = ddmin.TaskGenerator.update

        def update_marked(self, exprs):
            emit('adopt', strategy='ddmin', ld=leaf_digest(exprs))
            return orig_update(self, exprs)

        ddmin.TaskGenerator.update = update_marked
        orig_pp = ddmin._print_progress

        def pp_marked(*a, **kw):
            emit('consume', strategy='ddmin')
            return orig_pp(*a, **kw)

        ddmin._print_progress = pp_marked

        class PickleProxy:
            """strategy_hierarchical.reduce unpickles every result it takes
            from the pool with pickle.loads"""

            def __getattr__(self, name):
                return getattr(pickle, name)

            def loads(self, data, *a, **kw):
                if threading.current_thread() is threading.main_thread() \
                        and _STATE.get('in_hier_reduce'):
                    emit('consume', strategy='hierarchical')
                return pickle.loads(data, *a, **kw)

        hier.pickle = PickleProxy()

    # ---- fault injection into one mutator (C04: a failure inside one
    # mutator costs only that mutator's candidates)
    if CONFIG.get('break_mutator'):
        target = CONFIG['break_mutator']
        where = CONFIG.get('break_where', 'mutations')
        for group, (mod, reg) in mutators.get_all_mutators().items():
            if target in reg:
                cls = getattr(mod, target)
                for meth in ('filter', 'mutations', 'global_mutations'):
                    if meth in vars(cls) and (
                            where == 'all' or where == meth or
                            (where == 'mutations' and
                             meth == 'global_mutations')):
                        def broken(self, *a, _m=meth, **kw):
                            emit('injected_exception', mutator=target,
                                 method=_m)
                            raise RuntimeError(f'injected failure in '
                                               f'{target}.{_m}')
                        setattr(cls, meth, broken)

    # ---- mutator call counting (C14)
    if 'mut' in mon:
        for group, (mod, reg) in mutators.get_all_mutators().items():
            for cname in reg:
                cls = getattr(mod, cname)
                for meth in ('filter', 'mutations', 'global_mutations'):
                    if meth in vars(cls):
                        _wrap_count(cls, meth, cname)

        orig_ddmin_passes = ddmin.ddmin_passes

        def ddmin_passes():
            p = orig_ddmin_passes()
            emit('passes', strategy='ddmin',
                 passes=[[type(m).__name__ for m in ps] for ps in p])
            return p

        ddmin.ddmin_passes = ddmin_passes
        orig_apply_mut = ddmin._apply_mutator

        def _apply_mutator(mutator, exprs, max_depth=None):
            # one application of one mutator by strategy ddmin (a "round" of
            # the strategy is one sweep over its pass lists)
            emit('ddmin_apply', mutator=type(mutator).__name__,
                 stage=1 if max_depth is not None else 2)
            return orig_apply_mut(mutator, exprs, max_depth)

        ddmin._apply_mutator = _apply_mutator
        orig_get_passes = hier.get_passes

        def get_passes():
            p = orig_get_passes()
            names = []
            for ps in p:
                if isinstance(ps, tuple):
                    ps = ps[0]
                names.append([type(m).__name__ for m in ps])
            emit('passes', strategy='hierarchical', passes=names)
            return p

        hier.get_passes = get_passes

    # ---- final results and the C02 quiescent-point sweep
    orig_ddmin_reduce = ddmin.reduce
    orig_hier_reduce = hier.reduce

    def ddmin_reduce(exprs):
        emit('reduce_start', strategy='ddmin', base=leaf_digest(exprs))
        _STATE['in_reduce'] = _STATE.get('in_reduce', 0) + 1
        try:
            out, ntests = orig_ddmin_reduce(exprs)
        finally:
            _STATE['in_reduce'] -= 1
        emit('final', strategy='ddmin', ld=leaf_digest(out), ntests=ntests)
        return out, ntests

    def hier_reduce(exprs):
        emit('reduce_start', strategy='hierarchical', base=leaf_digest(exprs))
        _STATE['in_hier_reduce'] = True
        _STATE['in_reduce'] = _STATE.get('in_reduce', 0) + 1
        try:
            out, ntests = orig_hier_reduce(exprs)
        finally:
            _STATE['in_hier_reduce'] = False
            _STATE['in_reduce'] -= 1
        emit('final', strategy='hierarchical', ld=leaf_digest(out),
             ntests=ntests)
        if CONFIG.get('sweep'):
            from vlib import sweep
            sweep.run(mods, out, emit, CONFIG)
        return out, ntests

    ddmin.reduce = ddmin_reduce
    hier.reduce = hier_reduce


def _wrap_count(cls, meth, cname):
    orig = getattr(cls, meth)

    def counted(self, *a, **kw):
        bump(f'{cname}.{meth}')
        return orig(self, *a, **kw)

    counted.__name__ = meth
    setattr(cls, meth, counted)


# -- sys.monitoring based delay injection / failpoints / snapshots --------
def install_line_monitors(mods):
    import random
    (checker, nodeio, nodes, ddmin, hier, mutators, mutator_utils, options,
     tmpfiles, smtlib) = mods
    from vlib import budget
    monm = sys.monitoring
    TOOL = 3
    delay = CONFIG.get('delay')
    fp = CONFIG.get('failpoint')
    snaps = CONFIG.get('snapshots')
    if not (delay or fp or snaps):
        return
    monm.use_tool_id(TOOL, 'verif-launch')
    codes_delay = []
    if delay:
        for obj in (ddmin._check_par, ddmin.TaskGenerator, hier.reduce,
                    hier.Producer, hier.Consumer, ddmin._worker):
            codes_delay += budget.code_objects(obj)
    codes_write = []
    if fp or snaps:
        for name in ('write_smtlib_to_file', 'write_smtlib', '__write_smtlib',
                     '__write_smtlib_pretty', '__write_smtlib_wrapped',
                     '__write_smtlib_str'):
            f = getattr(nodeio, name, None)
            if f is not None:
                codes_write += budget.code_objects(f)
    # "anywhere" failpoints (C06): the N-th statement that the main thread of
    # the main process starts inside ddSMT's own code while a strategy is
    # reducing - every instant at which a SIGINT can be delivered there
    codes_any = []
    anyw = fp is not None and ('anywhere' in fp or fp.get('count_anywhere'))
    if anyw:
        mlist = [checker, nodeio, nodes, ddmin, hier, mutator_utils, tmpfiles,
                 smtlib]
        for group, (mod, reg) in mutators.get_all_mutators().items():
            mlist.append(mod)
        for m in mlist:
            codes_any += budget.code_objects(m)
    main_pid = os.getpid()
    any_count = [0]
    ids_delay = {id(c) for c in codes_delay}
    ids_write = {id(c) for c in codes_write}
    ids_any = {id(c) for c in codes_any}
    rng_by_pid = {}
    snap_seen = {}

    busy = []

    def classify_snapshot(w):
        busy.append(1)
        try:
            cur = read_file(w['file'])
        finally:
            busy.pop()
        if cur == w['before']:
            return 'previous' if cur is not None else 'absent'
        if cur == w['expected']:
            return 'new'
        if cur == b'':
            return 'EMPTY'
        if w['expected'] is not None and w['expected'].startswith(cur):
            return 'PARTIAL'
        return 'OTHER'

    def cb(code, line):
        cid = id(code)
        if anyw and cid in ids_any and _STATE.get('in_reduce') and \
                os.getpid() == main_pid and \
                threading.current_thread() is threading.main_thread() and \
                _STATE['in_write'] is None:
            any_count[0] += 1
            _STATE['anywhere_points'] = any_count[0]
            if fp.get('anywhere') == any_count[0]:
                emit('failpoint', anywhere=any_count[0],
                     where=f'{code.co_filename.split("/")[-1]}:'
                     f'{code.co_name}:{line}', action='interrupt',
                     writes_done=_STATE['write_seq'])
                raise KeyboardInterrupt()
        if cid in ids_write:
            w = _STATE['in_write']
            if w is None:
                return None
            w['line'] += 1
            if snaps:
                st = classify_snapshot(w)
                key = (w['seq'], st)
                if key not in snap_seen:
                    snap_seen[key] = 0
                snap_seen[key] += 1
                bump(f'snapshot_{st}')
                if st in ('EMPTY', 'PARTIAL', 'OTHER') and \
                        snap_seen[key] == 1:
                    emit('bad_snapshot', seq=w['seq'], state=st,
                         line=w['line'], where=f'{code.co_name}:{line}')
            if fp and fp.get('write') == w['seq'] and \
                    fp.get('line') == w['line']:
                emit('failpoint', seq=w['seq'], line=w['line'],
                     where=f'{code.co_name}:{line}',
                     action=fp.get('action'))
                if fp.get('action') == 'interrupt':
                    raise KeyboardInterrupt()
                if fp.get('action') == 'kill':
                    os.kill(os.getpid(), 9)
            return None
        if cid in ids_delay:
            pid = os.getpid()
            r = rng_by_pid.get(pid)
            if r is None:
                r = random.Random((delay.get('seed', 0) << 20) ^ pid % 9973)
                rng_by_pid.clear()
                rng_by_pid[pid] = r
            if r.random() < delay.get('prob', 0.02):
                bump('delays_injected')
                time.sleep(r.random() * delay.get('max_ms', 2) / 1000.0)
            return None
        if cid in ids_any:
            return None
        return monm.DISABLE

    monm.register_callback(TOOL, monm.events.LINE, cb)
    for c in codes_delay + codes_write + codes_any:
        monm.set_local_events(TOOL, c, monm.events.LINE)
    if anyw:
        import atexit

        def report():
            if os.getpid() == main_pid:
                emit('anywhere_total', points=any_count[0])

        atexit.register(report)

    if snaps:
        def audit(event, args):
            w = _STATE['in_write']
            if w is None or busy:
                return
            if event in ('open', 'os.rename', 'os.replace', 'os.remove'):
                busy.append(1)
                try:
                    st = classify_snapshot(w)
                finally:
                    busy.pop()
                bump(f'snapshot_{st}')
                bump('audit_points')
                if st in ('EMPTY', 'PARTIAL', 'OTHER'):
                    emit('bad_snapshot', seq=w['seq'], state=st,
                         line=w['line'], where=f'audit:{event}')

        sys.addaudithook(audit)


def main():
    global CONFIG, _EV_FD
    import multiprocessing
    multiprocessing.set_start_method('fork')
    repo = os.environ.get('VERIF_REPO', '/repo')
    sys.path.insert(0, repo)
    cfg = os.environ.get('VLAUNCH_CONFIG')
    if cfg:
        with open(cfg) as f:
            CONFIG = json.load(f)
    if CONFIG.get('events'):
        _EV_FD = os.open(CONFIG['events'],
                         os.O_WRONLY | os.O_APPEND | os.O_CREAT, 0o644)
    sys.argv = ['ddsmt'] + sys.argv[1:]
    import faulthandler
    import signal
    # the harness asks for the stacks of a run that hit its watchdog
    faulthandler.register(signal.SIGUSR1, all_threads=True)
    from ddsmt import (checker, nodeio, nodes, strategy_ddmin,
                       strategy_hierarchical, mutators, mutator_utils,
                       options, tmpfiles, smtlib)
    from ddsmt import __main__ as ddmain
    assert os.path.realpath(nodes.__file__).startswith(
        os.path.realpath(repo)), nodes.__file__
    mods = (checker, nodeio, nodes, strategy_ddmin, strategy_hierarchical,
            mutators, mutator_utils, options, tmpfiles, smtlib)
    install(mods)
    install_line_monitors(mods)
    main_pid = os.getpid()
    emit('start', argv=sys.argv[1:])
    rc = None
    try:
        rc = ddmain.main()
    finally:
        if os.getpid() == main_pid:
            emit('counts', counts=_COUNTS)
            emit('exit', rc=rc)
    sys.exit(rc)


if __name__ == '__main__':
    main()
