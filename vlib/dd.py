"""Import the real ddSMT modules from the repository under test.

``ddsmt.debug_utils`` parses ``sys.argv`` at import time, and
``ddsmt.options.args()`` caches its first parse, so the command line has to
be in place before anything is imported.
"""
import importlib
import os
import sys

from . import common

_loaded = {}


def load(argv=None):
    """Returns a namespace object with the ddsmt modules as attributes."""
    if 'ns' in _loaded:
        return _loaded['ns']
    if common.REPO not in sys.path:
        sys.path.insert(0, common.REPO)
    sys.argv = ['ddsmt'] + (argv if argv is not None else
                            ['in.smt2', 'out.smt2', 'cmd'])

    class NS:
        pass

    ns = NS()
    for m in ('options', 'nodes', 'nodeio', 'smtlib', 'mutator_utils',
              'mutators', 'mutators_core', 'mutators_smtlib', 'mutators_bv',
              'mutators_boolean', 'mutators_arithmetic', 'mutators_strings',
              'mutators_datatypes', 'mutators_fp'):
        setattr(ns, m, importlib.import_module(f'ddsmt.{m}'))
    ns.options.args(sys.argv[1:])
    # the real entry point defines logging.trace / logging.chat, which the
    # library code uses (e.g. collect_information on ill-formed commands)
    from ddsmt import cli
    cli.setup_logging()
    ns.Node = ns.nodes.Node
    f = ns.nodes.__file__
    assert os.path.realpath(f).startswith(os.path.realpath(common.REPO)), f
    _loaded['ns'] = ns
    return ns


def all_mutator_classes(ns):
    """{class name: (module, class, option name, group)} from the registries
    of the eight mutator modules."""
    out = {}
    for group, (mod, reg) in ns.mutators.get_all_mutators().items():
        for cname, opt in reg.items():
            out[cname] = (mod, getattr(mod, cname), opt, group)
    return out
