"""Workloads for real end-to-end runs: inputs, scripted-command specs and
option sets, shared by the real-run checks."""
import os

from . import gen_smt, realrun, refreader

STRATEGIES = ['ddmin', 'hierarchical', 'hybrid']
LOGICS = ['ALL', 'QF_BV', 'QF_UFLIA', 'QF_NIRA', 'QF_SLIA', 'QF_UFBVFP',
          'UFLIA', 'LIA', 'UF', 'AUFLIRA', 'BV']


def small_script(r, size='small', theories=None, quoted=False):
    """A gen_smt script of moderate size (real runs cost ~1 ms per test)."""
    pool = ['ints', 'reals', 'bv', 'fp', 'strings', 'arrays', 'dt', 'uf',
            'let', 'quant', 'defs', 'annot']
    if theories is None:
        theories = ['core'] + r.sample(pool, r.randint(1, 5))
    g = gen_smt.Gen(r, theories, max_bv=8, quoted=quoted)
    na, depth = {'tiny': (1, 1), 'small': (r.randint(1, 3), r.randint(1, 2)),
                 'medium': (r.randint(3, 6), r.randint(2, 3))}[size]
    s = g.script(nasserts=na, depth=depth, logic=r.choice(LOGICS))
    return s


# Commands and term forms that benchmarks contain but the typed generator does
# not build (every group is self-contained: its names start with u_ / U)
UNCOMMON = [
    ['(push 1)', '(assert (> 1 0))', '(pop 1)'],
    ['(define-sort USort () Int)', '(declare-const u_ds USort)',
     '(assert (= u_ds u_ds))'],
    ['(define-sort UArr (X) (Array X X))', '(declare-const u_da (UArr Int))',
     '(assert (= (select u_da 0) 0))'],
    ['(define-fun-rec u_rf ((u_n Int)) Int '
     '(ite (< u_n 1) 0 (u_rf (- u_n 1))))', '(assert (= (u_rf 2) 0))'],
    ['(define-funs-rec ((u_f1 ((u_a Int)) Int) (u_f2 ((u_b Int)) Int)) '
     '((u_f2 (+ u_a 1)) (u_f1 (- u_b 1))))'],
    ['(declare-datatypes ((UList 1)) ((par (T) ((unil) '
     '(ucons (uhd T) (utl (UList T)))))))', '(declare-const u_l (UList Int))',
     '(assert (= u_l (as unil (UList Int))))',
     '(assert (match u_l ((unil true) ((ucons u_h u_t) (> u_h 0)))))'],
    ['(get-info :reason-unknown)', '(echo "a ""quoted"" message")',
     '(get-value ((+ 1 2)))'],
    ['(declare-fun u_g (Int) Int)',
     '(assert (! (forall ((u_q Int)) (! (> (u_g u_q) 0) '
     ':pattern ((u_g u_q)))) :named u_name))', '(get-unsat-core)'],
    ['(declare-const u_s (Set Int))', '(assert (set.member 1 u_s))',
     '(declare-const u_tp (Tuple Int Bool))',
     '(assert ((_ tuple.select 1) u_tp))'],
    ['(set-info :source |two\nlines|)', '(set-option :random-seed 5)'],
    ['(declare-const u_b1 Bool)', '(declare-const u_b2 Bool)',
     '(check-sat-assuming (u_b1 (not u_b2)))', '(get-unsat-assumptions)'],
    ['(declare-sort U 0)', '(declare-fun u_p (U) Bool)',
     '(assert (exists ((u_x U)) (u_p u_x)))'],
    ['(declare-const u_bag (Bag String))', '(declare-const u_sq (Seq Int))',
     '(assert (= (seq.len u_sq) 2))'],
    ['(define-const u_c Int 3)', '(assert (< u_c 4))'],
    ['(assert (let ((u_x 1) (u_y 2)) (let ((u_x u_y)) (= u_x 2))))'],
    ['(reset-assertions)', '(reset)'],
    # characters outside ASCII (in the places where the standard allows any
    # printable character: quoted symbols, literals, comments)
    ['(set-info :source |Überprüfung – café|)', '(declare-const |größe| Int)',
     '(assert (> |größe| 0))', '; José, 日本'],
    ['(declare-const u_str String)', '(assert (= u_str "é!"))',
     '(assert (str.contains u_str "ß"))'],
]


def render_with_noise(r, nested, comments=True, uncommon=None):
    """Render a script to text with comments and varied layout.  One script
    in four (or ``uncommon``) also gets one or two groups of less common
    commands."""
    if uncommon is None:
        uncommon = r.random() < 0.25 or \
            os.environ.get('VERIF_UNCOMMON') == '1'
    lines = []
    for c in nested:
        if comments and isinstance(c, list) and r.random() < 0.12:
            # a comment *inside* the command (the reader keeps it as a child
            # of the s-expression it stands in)
            import copy
            c = copy.deepcopy(c)
            lists, stack = [], [c]
            while stack:
                x = stack.pop()
                lists.append(x)
                stack.extend(y for y in x if isinstance(y, list))
            x = r.choice(lists)
            x.insert(r.randint(min(1, len(x)), len(x)),
                     r.choice(['; inner', ';', '; (x) "y |z']))
        line = refreader.render([c]).rstrip('\n')
        if comments and r.random() < 0.15:
            lines.append('; comment (with parens) "and quotes"')
        if comments and r.random() < 0.1:
            line += ' ; trailing'
        lines.append(line)
    if uncommon:
        groups = r.sample(UNCOMMON, r.randint(1, 2))
        if r.random() < 0.3:
            # (the two groups with characters outside ASCII are the last)
            groups.append(r.choice(UNCOMMON[-2:]))
        for group in groups:
            at = r.randint(1 if lines else 0, len(lines))
            lines[at:at] = group
    return '\n'.join(lines) + '\n'


def tokens_of(text):
    return refreader.strip_comments(refreader.lex(text, tolerant=True))


def pick_predicate(r, text, families=None):
    """A predicate (RPN string) chosen so that runs are non-trivial: it is
    usually satisfied by ``text`` and by some, but not all, reductions."""
    toks = tokens_of(text)
    atoms = [t for t in toks if t not in '()']
    fam = r.choice(families or [
        'has', 'has2', 'count', 'subseq', 'hash', 'ntok', 'depth', 'scoped',
        'all', 'nothas'
    ])
    q = realrun.pct
    if fam == 'all' or not atoms:
        return 'all'
    if fam == 'has':
        return f'has:{q(r.choice(atoms))}'
    if fam == 'nothas':
        return f'has:{q(r.choice(atoms))} ! has:{q(r.choice(atoms))} &'
    if fam == 'has2':
        return f'has:{q(r.choice(atoms))} has:{q(r.choice(atoms))} &'
    if fam == 'count':
        t = r.choice(atoms + ['(', '('])
        k = max(1, toks.count(t) // r.choice([1, 2, 3]))
        return f'count:{q(t)}>={k}'
    if fam == 'subseq':
        idx = sorted(r.sample(range(len(toks)), min(len(toks),
                                                    r.randint(2, 4))))
        return 'subseq:' + ','.join(q(toks[i]) for i in idx)
    if fam == 'hash':
        m = r.choice([2, 3, 4])
        res = sorted(r.sample(range(m), r.randint(1, m - 1)))
        return f'hash:{m}:' + ','.join(map(str, res)) + f' has:{q(r.choice(atoms))} |'
    if fam == 'ntok':
        return f'ntok>={max(1, len(toks) // r.choice([2, 3, 5]))}'
    if fam == 'depth':
        d = 0
        m = 0
        for t in toks:
            if t == '(':
                d += 1
                m = max(m, d)
            elif t == ')':
                d -= 1
        return f'depth>={max(1, m - r.choice([0, 1, 2]))}'
    if fam == 'scoped':
        return f'scoped has:{q(r.choice(atoms))} &'
    return 'all'


BEHAVIOURS = [
    # (exit, out, err) of the 'interesting' class and of the other class
    ((1, 'bug\n', ''), (0, 'ok\n', '')),
    ((0, 'sat\n', ''), (0, 'unsat\n', '')),
    ((134, '', 'Assertion `x > 0\' failed.\n'), (0, 'sat\n', '')),
    ((0, 'sat\n', 'warning: foo\n'), (0, 'sat\n', 'warning: bar\n')),
    ((2, 'unknown\nextra\n', 'error line 3\n'), (2, 'unknown\n', '')),
    ((0, '', ''), (1, '', '')),
]


def pick_spec(r, text, families=None, nclasses=2):
    """Returns (rules, comparison options, description)."""
    pred = pick_predicate(r, text, families)
    a, b = r.choice(BEHAVIOURS)
    rules = [realrun.rule(pred, *a)]
    if nclasses > 2:
        pred2 = pick_predicate(r, text, families)
        rules.append(realrun.rule(pred2, 3, 'third\n', 'third err\n'))
    rules.append(realrun.rule('all', *b))
    return rules, pred


def comparison_options(r, golden):
    """A random comparison option set that is valid for the golden behaviour
    (match strings must occur in the golden output)."""
    gex, gout, gerr = golden
    c = r.random()
    opts = []
    if c < 0.35:
        return opts
    if c < 0.5:
        return ['--ignore-output']
    if c < 0.6:
        opts.append('--ignore-out')
    elif c < 0.7:
        opts.append('--ignore-err')
    if r.random() < 0.5 and gout.strip():
        w = r.choice(gout.split())
        opts += ['--match-out', w]
    if r.random() < 0.4 and gerr.strip():
        w = r.choice(gerr.split())
        opts += ['--match-err', w]
    return opts


def parse_comparison(opts):
    d = {'ignore_out': False, 'ignore_err': False, 'match_out': None,
         'match_err': None}
    i = 0
    while i < len(opts):
        o = opts[i]
        if o == '--ignore-output':
            d['ignore_out'] = d['ignore_err'] = True
        elif o == '--ignore-out':
            d['ignore_out'] = True
        elif o == '--ignore-err':
            d['ignore_err'] = True
        elif o == '--match-out':
            d['match_out'] = opts[i + 1]
            i += 1
        elif o == '--match-err':
            d['match_err'] = opts[i + 1]
            i += 1
        i += 1
    return d


def format_options(r):
    return r.choice([[], [], ['--pretty-print'], ['--wrap-lines']])
