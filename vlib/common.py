"""Shared plumbing of the /verif checks: tiers, seeds, evidence files, known
findings, three-valued verdicts, and a sub-process shard runner.

Nothing in here knows anything about ddSMT.
"""
import hashlib
import json
import os
import random
import subprocess
import sys
import time

VERIF = os.path.dirname(os.path.dirname(os.path.abspath(__file__)))
REPO = os.environ.get('VERIF_REPO', '/repo')
PY = '/venv/bin/python'
EVIDENCE_DIR = os.environ.get('VERIF_EVIDENCE_DIR',
                              os.path.join(VERIF, 'evidence'))
REPLAY_DIR = os.environ.get('VERIF_REPLAY_DIR', os.path.join(VERIF, 'replays'))
BUILD_DIR = os.path.join(VERIF, 'build')
NCPU = min(16, os.cpu_count() or 1)

EXIT_HELD = 0
EXIT_VIOLATION = 1
EXIT_INCONCLUSIVE = 2


def seed():
    try:
        return int(os.environ.get('VERIF_SEED', '0'))
    except ValueError:
        return 0


def digest(s, n=12):
    if isinstance(s, str):
        s = s.encode('utf-8', 'surrogatepass')
    return hashlib.blake2b(s, digest_size=8).hexdigest()[:n]


def rng(*parts):
    """A PRNG seeded from VERIF_SEED and the given parts (stable across
    processes, independent of PYTHONHASHSEED)."""
    h = hashlib.blake2b(repr((seed(), ) + parts).encode(),
                        digest_size=8).digest()
    return random.Random(int.from_bytes(h, 'big'))


def child_env(extra=None, hashseed='0'):
    env = dict(os.environ)
    env['PYTHONPATH'] = VERIF + os.pathsep + REPO
    env['PYTHONDONTWRITEBYTECODE'] = '1'
    if hashseed is not None:
        env['PYTHONHASHSEED'] = str(hashseed)
    env['VERIF_REPO'] = REPO
    if extra:
        env.update(extra)
    return env


def load_known_findings():
    path = os.path.join(VERIF, 'known_findings.json')
    try:
        with open(path) as f:
            data = json.load(f)
    except FileNotFoundError:
        return []
    return data.get('findings', [])


class Inconclusive(Exception):
    pass


class Ctx:
    """One run of one check."""

    def __init__(self, prop, tier, level):
        self.prop = prop
        self.tier = tier
        self.level = level
        self.seed = seed()
        self.t0 = time.time()
        self.counters = {}
        self.distinct = set()
        self.samples = []
        self.violations = {}  # key -> list of witnesses
        self.notes = []
        self.inconclusive = []
        self.extra = {}
        self.rule = ''
        self.assumptions = []
        self.exhaustive = None
        self.known = {
            f['key']: f
            for f in load_known_findings()
            if f.get('property') == prop and f.get('status') == 'open'
        }

    # -- accounting ---------------------------------------------------
    def count(self, name, n=1):
        self.counters[name] = self.counters.get(name, 0) + n

    def cmax(self, name, v):
        if v > self.counters.get(name, float('-inf')):
            self.counters[name] = v

    def add_distinct(self, key):
        self.distinct.add(key)

    def sample(self, s, limit=8):
        if len(self.samples) < limit:
            self.samples.append(s)

    def violation(self, key, what, witness):
        """Record a violation classified under mechanism ``key``."""
        lst = self.violations.setdefault(key, [])
        if len(lst) < 5:
            lst.append({'what': what, 'witness': witness})
        self.count('violations_raw')

    def inconclusive_because(self, why):
        self.inconclusive.append(why)

    def judge_watchdog(self, runs_key='runs', key='runs_watchdog'):
        """A run stopped by the harness's wall-clock watchdog observed
        nothing: it is neither a violation nor evidence that the property
        held.  A few of them among many conclusive runs are reported in the
        evidence; more than max(2, 2 %) make the whole check inconclusive."""
        n = self.counters.get(key, 0)
        total = max(1, self.counters.get(runs_key, 0))
        if n:
            self.notes.append(f'{n} of {total} runs were stopped by the '
                              f'watchdog and are not part of the verdict')
        if n > max(2, total // 50):
            self.inconclusive_because(
                f'{n} of {total} runs hit the watchdog')

    def merge(self, res):
        """Merge the result dict of a shard (see ``shard_result``)."""
        for k, v in res.get('counters', {}).items():
            self.count(k, v)
        for k, v in res.get('maxima', {}).items():
            self.cmax(k, v)
        for d in res.get('distinct', []):
            self.distinct.add(d)
        for s in res.get('samples', []):
            self.sample(s)
        for v in res.get('violations', []):
            self.violation(v['key'], v['what'], v['witness'])
        for w in res.get('inconclusive', []):
            self.inconclusive_because(w)
        for k, v in res.get('sets', {}).items():
            self.extra.setdefault(k, set()).update(v)

    # -- finishing -----------------------------------------------------
    def finish(self, evaluations=None, distinct_nontrivial=None):
        wall = time.time() - self.t0
        unlisted = []
        for key, lst in sorted(self.violations.items()):
            if key in self.known:
                print(f'KNOWN-FINDING: property={self.prop} key={key} '
                      f'{self.known[key].get("what", "")} '
                      f'[{lst[0]["what"]}]')
            else:
                unlisted.append(key)
        replay_paths = []
        for key in unlisted:
            d = os.path.join(REPLAY_DIR, self.prop)
            os.makedirs(d, exist_ok=True)
            safe = ''.join(c if c.isalnum() or c in '-_.' else '_'
                           for c in key)[:80]
            path = os.path.join(d, f'{safe}.json')
            with open(path, 'w') as f:
                json.dump(
                    {
                        'property': self.prop,
                        'key': key,
                        'tier': self.tier,
                        'seed': self.seed,
                        'cases': self.violations[key]
                    },
                    f,
                    indent=1,
                    default=str)
            replay_paths.append(path)
            print(f'VIOLATION property={self.prop} replay={path}')
            print(f'  key={key}: {self.violations[key][0]["what"]}')
        ev = evaluations if evaluations is not None else self.counters.get(
            'evaluations', 0)
        dn = distinct_nontrivial if distinct_nontrivial is not None else len(
            self.distinct)
        extra = {}
        for k, v in self.extra.items():
            if isinstance(v, set):
                extra[k] = sorted(v)[:200]
                extra[k + '_count'] = len(v)
            else:
                extra[k] = v
        coverage = {
            'evaluations': int(ev),
            'distinct_nontrivial': int(dn),
            'rule': self.rule,
            'samples': self.samples or ['(none)'],
            'counters': self.counters,
            'known_findings_seen':
            sorted(k for k in self.violations if k in self.known),
            'unlisted_violation_keys': unlisted,
            'inconclusive_reasons': self.inconclusive,
            'notes': self.notes,
        }
        coverage.update(extra)
        if self.exhaustive is not None:
            coverage['exhaustive'] = bool(self.exhaustive)
        evidence = {
            'property_id': self.prop,
            'tier': self.tier,
            'seed': self.seed,
            'level': self.level,
            'coverage': coverage,
            'assumptions': self.assumptions,
            'wall_s': round(wall, 2),
            'violations': len(unlisted),
        }
        os.makedirs(EVIDENCE_DIR, exist_ok=True)
        path = os.path.join(EVIDENCE_DIR, f'{self.prop}.json')
        tmp = path + f'.tmp{os.getpid()}'
        with open(tmp, 'w') as f:
            json.dump(evidence, f, indent=1, default=str)
        os.replace(tmp, path)
        if unlisted:
            print(f'{self.prop}: VIOLATED ({len(unlisted)} unlisted '
                  f'mechanism(s)); {ev} evaluations, {wall:.1f}s')
            return EXIT_VIOLATION
        if self.inconclusive:
            print(f'{self.prop}: INCONCLUSIVE: ' +
                  '; '.join(self.inconclusive[:5]))
            return EXIT_INCONCLUSIVE
        print(f'{self.prop}: held on what was observed: {ev} evaluations, '
              f'{dn} distinct non-trivial, {wall:.1f}s '
              f'({len(self.violations)} known-finding mechanism(s) seen)')
        return EXIT_HELD


class ShardResult:
    """Accumulator used inside a shard; ``to_dict`` is what ``Ctx.merge``
    eats."""

    def __init__(self):
        self.counters = {}
        self.maxima = {}
        self.distinct = set()
        self.samples = []
        self.violations = []
        self.vkeys = {}
        self.inconclusive = []
        self.sets = {}

    def count(self, name, n=1):
        self.counters[name] = self.counters.get(name, 0) + n

    def cmax(self, name, v):
        if v > self.maxima.get(name, float('-inf')):
            self.maxima[name] = v

    def add_distinct(self, key):
        self.distinct.add(key)

    def add_set(self, name, v):
        self.sets.setdefault(name, set()).add(v)

    def sample(self, s, limit=3):
        if len(self.samples) < limit:
            self.samples.append(s)

    def violation(self, key, what, witness):
        n = self.vkeys.get(key, 0)
        self.vkeys[key] = n + 1
        self.count('violations_raw')
        if n < 2:
            self.violations.append({
                'key': key,
                'what': what,
                'witness': witness
            })

    def to_dict(self):
        return {
            'counters': self.counters,
            'maxima': self.maxima,
            'distinct': sorted(self.distinct),
            'samples': self.samples,
            'violations': self.violations,
            'inconclusive': self.inconclusive,
            'sets': {k: sorted(v)
                     for k, v in self.sets.items()},
        }


def run_shards(module, shard_args, timeout, hashseed='0', extra_env=None,
               max_parallel=None):
    """Run ``module.shard(args)`` for every element of ``shard_args`` in a
    fresh python sub-process each (at most NCPU at a time).  Returns a list
    of (args, result-dict | None, status) where status is 'ok', 'timeout' or
    'crash:<info>'."""
    max_parallel = max_parallel or NCPU
    scratch = scratch_dir(module.replace('.', '_'))
    pending = list(enumerate(shard_args))
    running = []
    results = [None] * len(shard_args)

    def start(i, a):
        inp = os.path.join(scratch, f'in{i}.json')
        out = os.path.join(scratch, f'out{i}.json')
        err = os.path.join(scratch, f'err{i}.txt')
        with open(inp, 'w') as f:
            json.dump(a, f)
        ef = open(err, 'w')
        hs = hashseed(i) if callable(hashseed) else hashseed
        # temporary directories of the code under test (tmpfiles.init) live
        # below the scratch directory, which is removed at the end
        tmp = os.path.join(scratch, f'tmp{i}')
        os.makedirs(tmp, exist_ok=True)
        env = child_env(extra_env, hs)
        env.setdefault('TMPDIR', tmp)
        if extra_env is None or 'TMPDIR' not in extra_env:
            env['TMPDIR'] = tmp
        p = subprocess.Popen(
            [PY, '-m', 'vlib.shardmain', module, inp, out],
            stdout=ef,
            stderr=subprocess.STDOUT,
            stdin=subprocess.DEVNULL,
            env=env,
            cwd=VERIF,
            start_new_session=True)
        running.append((i, a, p, time.time(), out, err, ef))

    while pending or running:
        while pending and len(running) < max_parallel:
            i, a = pending.pop(0)
            start(i, a)
        time.sleep(0.02)
        for ent in list(running):
            i, a, p, t0, out, err, ef = ent
            rc = p.poll()
            if rc is None:
                if time.time() - t0 > timeout:
                    try:
                        os.killpg(p.pid, 9)
                    except OSError:
                        pass
                    p.wait()
                    ef.close()
                    running.remove(ent)
                    results[i] = (a, None, 'timeout')
                continue
            ef.close()
            running.remove(ent)
            # the shard ran in its own session: whatever it left behind
            # (e.g. pool workers respawned by a pool's maintenance thread)
            # goes with it
            try:
                os.killpg(p.pid, 9)
            except OSError:
                pass
            res = None
            try:
                with open(out) as f:
                    res = json.load(f)
            except Exception:
                pass
            if rc == 0 and res is not None:
                results[i] = (a, res, 'ok')
            else:
                try:
                    with open(err) as f:
                        tail = f.read()[-1500:]
                except Exception:
                    tail = ''
                results[i] = (a, res, f'crash:rc={rc}:{tail}')
    import shutil
    shutil.rmtree(scratch, ignore_errors=True)
    return results


def scratch_dir(name):
    """A fresh private scratch directory (removed by the caller)."""
    import tempfile
    base = os.environ.get('VERIF_SCRATCH', os.path.join(VERIF, 'scratch'))
    os.makedirs(base, exist_ok=True)
    return tempfile.mkdtemp(prefix=f'{name}-', dir=base)


def merge_shards(ctx, results, what='shard'):
    """Merge results of ``run_shards`` into ctx; time-outs and crashes of the
    harness itself make the run inconclusive."""
    for a, res, status in results:
        if status == 'ok':
            ctx.merge(res)
        elif status == 'timeout':
            ctx.inconclusive_because(f'{what} {a} hit the wall-clock watchdog')
        else:
            ctx.inconclusive_because(f'{what} {a} failed: {status[-600:]}')
