"""``./check <ID> <quick|thorough>`` dispatcher."""
import importlib
import json
import os
import sys

from . import common


def usage():
    print('usage: ./check <ID> <quick|thorough> | ./check <ID> --replay <path>'
          ' | ./check --setup | ./check --selftest')
    return 2


def main():
    argv = sys.argv[1:]
    if not argv:
        return usage()
    if argv[0] == '--setup':
        from . import setup
        return setup.main()
    if argv[0] == '--selftest':
        from . import setup
        return setup.selftest(verbose=True)
    if len(argv) < 2:
        return usage()
    prop = argv[0].upper()
    try:
        mod = importlib.import_module(f'checks.{prop.lower()}')
    except ModuleNotFoundError as e:
        print(f'no check for {prop}: {e}')
        return 2
    # temporary files of anything started from here (replays included) live
    # below /verif/scratch and go away with it
    import atexit
    import shutil
    import tempfile
    tmp = common.scratch_dir('tmp')
    os.environ['TMPDIR'] = tmp
    tempfile.tempdir = tmp
    atexit.register(shutil.rmtree, tmp, True)
    if argv[1] == '--replay':
        with open(argv[2]) as f:
            data = json.load(f)
        return mod.replay(data)
    tier = os.environ.get('VERIF_TIER') or argv[1]
    if argv[1] in ('quick', 'thorough'):
        tier = argv[1]
    if tier not in ('quick', 'thorough'):
        return usage()
    ctx = common.Ctx(prop, tier, mod.LEVEL)
    try:
        mod.run(ctx)
    except common.Inconclusive as e:
        ctx.inconclusive_because(str(e))
    return ctx.finish()


if __name__ == '__main__':
    sys.exit(main())
