"""Self-tests of the trusted base, run by ./check --setup and --selftest."""
import os
import random
import shutil
import subprocess

from . import common, evalsmt, gen_smt, refreader


def test_vcmd_lexer(verbose, n=1500):
    """vcmd's C lexer and predicate evaluation agree with the Python ones."""
    from . import gen_lex, realrun
    vc = realrun.vcmd_path()
    d = common.scratch_dir('selftest')
    try:
        r = random.Random(7)
        spec = os.path.join(d, 'spec')
        preds = ['all', 'balanced', 'has:a', 'count:%28>=3', 'ntok>=5',
                 'depth>=3', 'hash:3:0,2', 'subseq:%28,%29', 'scoped',
                 'has:a has:b & !', 'first:assert', 'has:x%23__fresh',
                 'count:x%23__fresh>=3', 'subseq:declare-const,x%23__fresh']
        fresh_texts = [
            '(declare-const x12__fresh Bool)(declare-const x7__fresh Bool)'
            '(assert (xor x7__fresh x12__fresh))',
            '(declare-const x12__fresh Bool)(assert (and x12__fresh '
            'x99__fresh))',
            '(assert x3__fresh)(declare-const x3__fresh Bool)',
            '(declare-const x5__fresh Int)(declare-const x5__fresh Int)'
            '(assert (> x5__fresh 0))',
            '(declare-fun f () Int)(declare-const x1__fresh Int)'
            '(assert (= f x1__fresh x1__fresh))',
        ]
        rules = [realrun.rule(p, exit=i + 1) for i, p in enumerate(preds)]
        log = os.path.join(d, 'log')
        for i in range(n):
            items = gen_lex.tree(r, depth=r.randint(0, 4), cr_ok=True,
                                 long_tokens=True)
            text = gen_lex.serialise(r, items,
                                     gen_lex.SEPS_STD + gen_lex.SEPS_CR,
                                     comment_ends=('\n', '\r\n'))
            if i % 3 == 0:
                text = gen_smt.random_script(r).text()
            if i % 7 == 1:
                # names of the form ddSMT invents (canonicalised for digests
                # and has/count/subseq, not for scoped)
                text = r.choice(fresh_texts)
                if r.random() < 0.5:
                    text = text.replace('x12__fresh', 'x13__fresh')
            f = os.path.join(d, 'f.smt2')
            with open(f, 'w', newline='') as fh:
                fh.write(text)
            # rotate the rule order so that every predicate gets decided
            k = i % len(rules)
            rr = rules[k:] + rules[:k]
            with open(spec, 'w') as fh:
                fh.write('\n'.join(rr) + '\n')
            if os.path.exists(log):
                os.unlink(log)
            rc, out, err = realrun.run_vcmd(vc, spec, f, log=log)
            want = realrun.eval_spec(rr, text)
            ent = realrun.read_jsonl(log)[0]
            if ent['td'] != refreader.token_digest(text):
                print('SELFTEST vcmd: token digest differs on', repr(text))
                return 1
            if rc != want[1] or ent['rule'] != want[0]:
                print('SELFTEST vcmd: rule decision differs on', repr(text),
                      rc, want, ent)
                return 1
        if verbose:
            print(f'vcmd vs python lexer/predicates: {n} texts agree')
    finally:
        shutil.rmtree(d, ignore_errors=True)
    return 0


def test_vcmd_asan(verbose):
    from . import realrun, setup
    try:
        va = setup.build_vcmd_asan()
    except Exception as e:  # noqa
        if verbose:
            print('vcmd ASan build unavailable:', e)
        return 0
    d = common.scratch_dir('selftest')
    try:
        r = random.Random(11)
        spec = os.path.join(d, 'spec')
        with open(spec, 'w') as fh:
            fh.write('\n'.join([
                realrun.rule('scoped has:assert &', 3, 'sat\n', 'w'),
                realrun.rule('subseq:a,b hash:5:1 | depth>=2 &', 4),
                realrun.rule('all', 0, 'ok')
            ]) + '\n')
        for i in range(150):
            text = gen_smt.random_script(r).text()
            if i % 4 == 0:
                text = text[:r.randint(0, len(text))]
            f = os.path.join(d, 'f.smt2')
            with open(f, 'w') as fh:
                fh.write(text)
            p = subprocess.run([va, spec, '--x', f], capture_output=True,
                               env=dict(os.environ, VCMD_LOG=os.path.join(
                                   d, 'log'),
                                        ASAN_OPTIONS='detect_leaks=0'),
                               timeout=60)
            if b'Sanitizer' in p.stderr or b'runtime error' in p.stderr:
                print('SELFTEST vcmd-asan report:', p.stderr[:600])
                return 1
        if verbose:
            print('vcmd ASan/UBSan build: 150 inputs, no report')
    finally:
        shutil.rmtree(d, ignore_errors=True)
    return 0


def test_gen_smt(verbose, n=40):
    """Generated scripts are accepted by z3 and cvc5 (sort checking)."""
    d = common.scratch_dir('selftest')
    try:
        for i in range(n):
            r = random.Random(1000 + i)
            s = gen_smt.random_script(r)
            nested = [c for c in s.nested() if c[0] not in (
                'check-sat', 'check-sat-assuming', 'get-model', 'exit')]
            p = os.path.join(d, 's.smt2')
            with open(p, 'w') as f:
                f.write(refreader.render(nested))
            z = subprocess.run(['z3', '-smt2', p], capture_output=True,
                               text=True, timeout=60)
            errs = [l for l in z.stdout.splitlines()
                    if 'error' in l and 'divisible' not in l]
            if errs:
                print('SELFTEST gen_smt: z3 rejects script', i, errs[:2])
                return 1
            c = subprocess.run(['cvc5', '--parse-only', '--lang=smt2', p],
                               capture_output=True, text=True, timeout=60)
            if c.returncode != 0:
                print('SELFTEST gen_smt: cvc5 rejects script', i,
                      (c.stdout + c.stderr)[:300])
                return 1
        if verbose:
            print(f'gen_smt: {n} scripts accepted by z3 and cvc5')
    finally:
        shutil.rmtree(d, ignore_errors=True)
    return 0


def test_evalsmt(verbose, n=80):
    """The evaluator agrees with z3 on closed instances of generated terms."""
    d = common.scratch_dir('selftest')
    agree = undecided = 0
    try:
        for i in range(n):
            r = random.Random(5000 + i)
            th = ['core', 'let', 'defs'] + r.sample(
                ['ints', 'reals', 'bv', 'dt', 'quant'], r.randint(1, 5))
            s = gen_smt.random_script(r, theories=th, nasserts=3, depth=3)
            nested = s.nested()
            world = evalsmt.World(nested)
            env = evalsmt.Env(world, r)
            lines = []
            queries = []
            for c in nested:
                if c[0] in ('declare-datatype', 'declare-datatypes',
                            'define-fun', 'declare-sort'):
                    lines.append(c)
                elif c[0] in ('declare-const', 'declare-fun'):
                    name = c[1]
                    sort = world.consts[name]
                    try:
                        v = env.const(name)
                    except evalsmt.Unsupported:
                        lines.append(c)
                        continue
                    lines.append(['define-fun', name, [], sort,
                                  evalsmt.value_to_nested(v)])
                elif c[0] == 'assert':
                    try:
                        v = evalsmt.evaluate(c[1], env)
                    except evalsmt.Unsupported:
                        continue
                    queries.append((c[1], v))
                    lines.append(['simplify',
                                  ['=', c[1], evalsmt.value_to_nested(v)]])
            if not queries or 'divisible' in refreader.render(lines):
                continue  # z3 does not know (_ divisible n)
            p = os.path.join(d, 'e.smt2')
            with open(p, 'w') as f:
                f.write(refreader.render(lines))
            z = subprocess.run(['z3', '-smt2', p], capture_output=True,
                               text=True, timeout=120)
            outs = [l.strip() for l in z.stdout.splitlines() if l.strip()]
            if any('error' in l for l in outs):
                print('SELFTEST evalsmt: z3 error', outs[:2],
                      refreader.render(lines)[:600])
                return 1
            # one s-expression per simplify; anything but a plain true /
            # false is a residual z3 could not decide (unspecified cases)
            answers = refreader.read(z.stdout)
            if 'false' in answers:
                print('SELFTEST evalsmt: z3 disagrees:', outs,
                      refreader.render(lines))
                return 1
            agree += answers.count('true')
            undecided += len(queries) - answers.count('true')
        if verbose:
            print(f'evalsmt vs z3 simplify: {agree} terms agree, '
                  f'{undecided} left undecided by z3')
        if agree < 20:
            print('SELFTEST evalsmt: too few comparisons')
            return 1
    finally:
        shutil.rmtree(d, ignore_errors=True)
    return 0


def run(verbose=False):
    for t in (test_vcmd_lexer, test_vcmd_asan, test_gen_smt, test_evalsmt):
        rc = t(verbose)
        if rc:
            return 2
    return 0
