"""Generator over the *lexical* space of SMT-LIB texts.

A case is a tree (nested lists of lexemes, comments included as leaves
starting with ';') plus a serialisation that chooses the separators.  The
generator knows, by construction, which token sequence / nesting a
standard-conforming reader has to return; ``selftest`` re-lexes every output
with ``refreader`` to confirm exactly that.
"""
from . import refreader

SYM_START = 'abcxyzABCXYZ~!@$%^&*_-+=<>.?/'
SYM_CHARS = SYM_START + '0123456789'
LEXEME_CLASSES = [
    'numeral', 'decimal', 'hex', 'bin', 'string', 'symbol', 'quoted',
    'keyword', 'comment'
]

STR_POOL = [
    'a', 'b', ' ', '  ', '(', ')', ';', '""', '|', '\\', '\n', '\t', '-', 'é',
    '0', 'x y', ')(', ';;', '""""'
]
QUO_POOL = [
    'a', 'b', ' ', '  ', '(', ')', ';', '"', '""', '\n', '\t', '-', 'é', '0',
    'x y', ')('
]
COM_POOL = ['a', ' ', '(', ')', ';', '"', '|', 'foo', '\t', 'é', ')))', '((']


def lexeme(r, cls, maxlen=6, cr_ok=False):
    if cls == 'numeral':
        return r.choice(['0', '1', '7', '42', '1234567890', '00'])
    if cls == 'decimal':
        return r.choice(['0.0', '1.5', '3.14159', '10.0', '0.50'])
    if cls == 'hex':
        return '#x' + ''.join(
            r.choice('0123456789abcdefABCDEF')
            for _ in range(r.randint(1, maxlen)))
    if cls == 'bin':
        return '#b' + ''.join(r.choice('01') for _ in range(r.randint(1, 8)))
    if cls == 'string':
        pool = STR_POOL + (['\r', '\r\n'] if cr_ok else [])
        return '"' + ''.join(
            r.choice(pool) for _ in range(r.randint(0, maxlen))) + '"'
    if cls == 'symbol':
        n = r.randint(1, maxlen)
        s = r.choice(SYM_START) + ''.join(
            r.choice(SYM_CHARS) for _ in range(n - 1))
        return s
    if cls == 'quoted':
        pool = QUO_POOL + (['\r', '\r\n'] if cr_ok else [])
        return '|' + ''.join(
            r.choice(pool) for _ in range(r.randint(0, maxlen))) + '|'
    if cls == 'keyword':
        return ':' + ''.join(
            r.choice(SYM_CHARS) for _ in range(r.randint(1, maxlen)))
    if cls == 'comment':
        return ';' + ''.join(
            r.choice(COM_POOL) for _ in range(r.randint(0, maxlen)))
    raise ValueError(cls)


def long_token(r, n):
    """A symbol of n characters, possibly hyphenated."""
    return ''.join(
        r.choice('abcdefgh-' if i % 7 else 'abcdefgh') for i in range(n))


def tree(r,
         depth=3,
         width=4,
         comments=True,
         toplevel_atoms=True,
         long_tokens=False,
         cr_ok=False):
    """A random list of top-level items."""
    classes = [c for c in LEXEME_CLASSES if comments or c != 'comment']

    def atom():
        if long_tokens and r.random() < 0.08:
            return long_token(r, r.choice([20, 60, 79, 85, 120, 200]))
        return lexeme(r, r.choice(classes), cr_ok=cr_ok)

    def item(d):
        if d <= 0 or r.random() < 0.45:
            return atom()
        n = r.choice([0, 1, 1, 2, 2, 3, width, width + 2])
        return [item(d - 1) for _ in range(n)]

    n = r.randint(0, width)
    out = []
    for _ in range(n):
        it = item(depth)
        if not isinstance(it, list) and not toplevel_atoms and \
                not refreader.is_comment(it):
            it = [it]
        out.append(it)
    return out


def adjacent_ok(prev, t):
    """May token t directly follow token prev without white space?  A quoted
    symbol and a string literal end at their closing delimiter, and the
    characters '|' and '"' cannot be part of any other token, so the only
    ambiguous case is a string literal directly followed by another one
    ('""' is the escape for a quote)."""
    if prev[0] == '|':
        return True
    if prev[0] == '"':
        return t[0] != '"'
    return t[0] in '|"'


SEPS_STD = [' ', '\t', '\n', '  ', ' \n ', '\n\n', '\t ']
SEPS_CR = ['\r', '\r\n', ' \r', '\r\n\r\n', '\r ']


def serialise(r, items, seps, comment_ends=('\n', ), final=None, tight=0.3):
    """Serialise with random separators from ``seps``.  A separator may be
    empty only next to a parenthesis or before a comment; a comment is
    ended by one of ``comment_ends`` (which also separates)."""
    toks = refreader.flatten(items)
    out = []
    prev = None
    for t in toks:
        if prev is not None:
            if refreader.is_comment(prev):
                out.append(r.choice(comment_ends))
                if r.random() < 0.3:
                    out.append(r.choice(seps))
            else:
                may_be_empty = (prev == '(' or prev == ')' or t == '('
                                or t == ')' or refreader.is_comment(t)
                                or adjacent_ok(prev, t))
                if may_be_empty and r.random() < tight:
                    pass
                else:
                    out.append(r.choice(seps))
        out.append(t)
        prev = t
    if prev is not None and refreader.is_comment(prev):
        if final is None:
            final = r.choice(['', '\n'])
        out.append(final if final in ('', '\n', '\r\n') else '\n')
    else:
        if final is None:
            final = r.choice(['', '\n', ' '])
        out.append(final)
    return ''.join(out)


def selftest(n=3000):
    """Every generated text lexes back (reference reader) to the intended
    tree."""
    import random
    r = random.Random(12345)
    for i in range(n):
        cr = i % 2 == 0
        items = tree(r, depth=r.randint(0, 4), cr_ok=cr, long_tokens=True)
        text = serialise(r,
                         items,
                         SEPS_STD + (SEPS_CR if cr else []),
                         comment_ends=('\n', '\r\n') if cr else ('\n', ))
        got = refreader.read(text)
        if got != items:
            raise AssertionError(
                f'gen_lex/refreader disagree on {text!r}: {got!r} vs {items!r}'
            )
    return n
