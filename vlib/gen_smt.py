"""Typed SMT-LIB script generator.

Every term the generator builds carries its sort, so the typing of each
subterm position is ground truth *by construction*.  Covers Core, Ints,
Reals, FixedSizeBitVectors, FloatingPoint, Strings/Seq, ArraysEx, datatypes,
uninterpreted functions, let, quantifiers, define-fun, annotations.  Every
declared / defined / bound symbol gets a unique name (bound exactly once).

Sorts are tuples: ('Bool',) ('Int',) ('Real',) ('BV', n) ('FP', e, s) ('RM',)
('String',) ('Array', S, T) ('DT', name) ('U', name) ('Seq', S) ('RegLan',)
"""
BOOL = ('Bool', )
INT = ('Int', )
REAL = ('Real', )
STRING = ('String', )
RM = ('RM', )
REGLAN = ('RegLan', )

FP_SHORT = {(5, 11): 'Float16', (8, 24): 'Float32', (11, 53): 'Float64',
            (15, 113): 'Float128'}


def BV(n):
    return ('BV', n)


def sort_nested(s, short_fp=None, r=None):
    k = s[0]
    if k in ('Bool', 'Int', 'Real', 'String', 'RegLan'):
        return k
    if k == 'RM':
        return 'RoundingMode'
    if k == 'BV':
        return ['_', 'BitVec', str(s[1])]
    if k == 'FP':
        if (s[1], s[2]) in FP_SHORT:
            use_short = short_fp if short_fp is not None else (
                r.random() < 0.5 if r else False)
            if use_short:
                return FP_SHORT[(s[1], s[2])]
        return ['_', 'FloatingPoint', str(s[1]), str(s[2])]
    if k == 'Array':
        return ['Array', sort_nested(s[1], short_fp, r),
                sort_nested(s[2], short_fp, r)]
    if k == 'Seq':
        return ['Seq', sort_nested(s[1], short_fp, r)]
    if k in ('DT', 'U'):
        return s[1]
    raise ValueError(s)


def sort_from_nested(t, dtnames=(), unames=()):
    """nested sort expression -> sort tuple (None if not understood)."""
    if isinstance(t, str):
        if t in ('Bool', 'Int', 'Real', 'String', 'RegLan'):
            return (t, )
        if t == 'RoundingMode':
            return RM
        for (e, s), n in FP_SHORT.items():
            if t == n:
                return ('FP', e, s)
        if t in dtnames:
            return ('DT', t)
        if t in unames:
            return ('U', t)
        return None
    try:
        if t[0] == '_' and t[1] == 'BitVec' and len(t) == 3:
            return BV(int(t[2]))
        if t[0] == '_' and t[1] == 'FloatingPoint' and len(t) == 4:
            return ('FP', int(t[2]), int(t[3]))
        if t[0] == 'Array' and len(t) == 3:
            a = sort_from_nested(t[1], dtnames, unames)
            b = sort_from_nested(t[2], dtnames, unames)
            return ('Array', a, b) if a and b else None
        if t[0] == 'Seq' and len(t) == 2:
            a = sort_from_nested(t[1], dtnames, unames)
            return ('Seq', a) if a else None
    except (IndexError, ValueError, TypeError):
        return None
    return None


class Term:
    """A typed term.  ``items`` is the list of children of the s-expression
    (Term objects for sub-terms, raw nested lists/str for non-term parts such
    as operator names, indices, binders, sorts, attributes); a leaf has
    ``leaf`` set instead."""
    __slots__ = ('items', 'leaf', 'sort', 'op')

    def __init__(self, sort, leaf=None, items=None, op=None):
        self.sort = sort
        self.leaf = leaf
        self.items = items
        self.op = op

    def nested(self):
        if self.leaf is not None:
            return self.leaf
        return [x.nested() if isinstance(x, Term) else x for x in self.items]

    def positions(self, path=()):
        """Yields (path, Term) for this term and all sub-*terms*."""
        yield path, self
        if self.items:
            for i, x in enumerate(self.items):
                if isinstance(x, Term):
                    yield from x.positions(path + (i, ))
                elif isinstance(x, _Bindings):
                    yield from x.positions(path + (i, ))

    def size(self):
        return sum(1 for _ in self.positions())


class _Bindings(list):
    """The binding list of a let: [[name, Term], ...]; nested() aware."""

    def nested(self):
        return [[n, t.nested()] for n, t in self]

    def positions(self, path):
        for i, (n, t) in enumerate(self):
            yield from t.positions(path + (i, 1))


def _nest(x):
    if isinstance(x, (Term, _Bindings)):
        return x.nested()
    if isinstance(x, list):
        return [_nest(y) for y in x]
    return x


# patch Term.nested to handle _Bindings and raw lists containing Terms
def _term_nested(self):
    if self.leaf is not None:
        return self.leaf
    return [_nest(x) for x in self.items]


Term.nested = _term_nested

ALL_THEORIES = ('core', 'ints', 'reals', 'bv', 'fp', 'strings', 'arrays',
                'dt', 'uf', 'let', 'quant', 'defs', 'annot')


class Gen:

    def __init__(self, r, theories=ALL_THEORIES, max_bv=8, names='plain',
                 quoted=False):
        self.r = r
        self.th = set(theories)
        self.max_bv = max_bv
        self.quoted = quoted
        self.counter = 0
        self.consts = {}  # sort -> [name]
        self.bound = []  # stack of {sort: [name]} for let/quantifier scopes
        self.funs = []  # (name, [arg sorts], res sort)
        self.defs = []  # (name, [(param, sort)], res sort, body Term)
        self.dts = {}  # name -> [(cons, [(sel, sort)])]
        self.usorts = []
        self.commands = []  # declarations in order
        self.names_style = names

    # -- names ---------------------------------------------------------
    def fresh(self, prefix):
        self.counter += 1
        n = f'{prefix}{self.counter}'
        if self.names_style == 'shared':
            # one name space for all roles: in a sequence of scripts the
            # same name is a constructor in one, a function, sort, constant
            # or bound variable in another
            n = f'n{self.counter}'
        if self.quoted and self.r.random() < 0.3:
            c = self.r.random()
            if c < 0.35:
                return '|' + n + '|'
            if c < 0.6:
                return '|' + n + ' q|'
            # any printable character but | and \ may occur in a quoted
            # symbol: one or two of them, without or with a blank
            pool = ';,:()"\'#[]{}`~!@$%^&*_-+=<>.?/'
            mid = ''.join(self.r.choice(pool)
                          for _ in range(self.r.randint(1, 2)))
            return '|' + self.r.choice([n + mid, mid + n, n[:1] + mid + n[1:],
                                        n + mid + ' q']) + '|'
        return n

    # -- sorts ---------------------------------------------------------
    def base_sorts(self):
        out = [BOOL]
        if 'ints' in self.th:
            out.append(INT)
        if 'reals' in self.th:
            out.append(REAL)
        if 'bv' in self.th:
            out += [BV(1), BV(self.r.choice([2, 3, 4, 8])), BV(
                self.r.randint(1, self.max_bv))]
        if 'fp' in self.th:
            out += [('FP', 5, 11), ('FP', 3, 5), RM]
            if self.r.random() < 0.3:
                out.append(('FP', 8, 24))
        if 'strings' in self.th:
            out.append(STRING)
            if self.r.random() < 0.2 and 'ints' in self.th:
                out.append(('Seq', INT))
        if 'dt' in self.th and self.dts:
            out += [('DT', n) for n in self.dts]
        if 'uf' in self.th and self.usorts:
            out += [('U', n) for n in self.usorts]
        return out

    def rand_sort(self, allow_array=True):
        bs = self.base_sorts()
        if allow_array and 'arrays' in self.th and self.r.random() < 0.15:
            idx = self.r.choice([s for s in bs if s[0] in ('Int', 'BV')] or
                                [BOOL])
            return ('Array', idx, self.r.choice(bs))
        return self.r.choice(bs)

    # -- declarations --------------------------------------------------
    def declare_const(self, sort):
        n = self.fresh('v')
        self.consts.setdefault(sort, []).append(n)
        if self.r.random() < 0.3:
            self.commands.append(
                ['declare-fun', n, [], sort_nested(sort, None, self.r)])
        else:
            self.commands.append(
                ['declare-const', n,
                 sort_nested(sort, None, self.r)])
        return n

    def declare_fun(self):
        n = self.fresh('f')
        args = [self.rand_sort(False) for _ in range(self.r.randint(1, 3))]
        res = self.rand_sort(False)
        self.funs.append((n, args, res))
        self.commands.append([
            'declare-fun', n, [sort_nested(a, None, self.r) for a in args],
            sort_nested(res, None, self.r)
        ])

    def declare_datatype(self):
        name = self.fresh('D')
        self.dts[name] = []  # allow recursion reference
        conss = []
        for _ in range(self.r.randint(1, 3)):
            c = self.fresh('C')
            sels = []
            for _ in range(self.r.choice([0, 0, 1, 1, 2])):
                s = self.fresh('s')
                so = self.r.choice(
                    [x for x in self.base_sorts() if x != ('DT', name)] or
                    [BOOL])
                sels.append((s, so))
            conss.append((c, sels))
        # make sure there is a nullary constructor so that values exist
        if all(sels for _, sels in conss):
            conss.append((self.fresh('C'), []))
        self.dts[name] = conss
        body = [[c] + [[s, sort_nested(so, None, self.r)] for s, so in sels]
                for c, sels in conss]
        if self.r.random() < 0.5:
            self.commands.append(['declare-datatype', name, body])
        else:
            self.commands.append(
                ['declare-datatypes', [[name, '0']], [body]])

    def declare_datatypes_group(self, k):
        """k datatypes in one declare-datatypes command."""
        names = [self.fresh('D') for _ in range(k)]
        for n in names:
            self.dts[n] = []
        bodies = []
        for name in names:
            conss = []
            for _ in range(self.r.randint(1, 3)):
                c = self.fresh('C')
                sels = []
                for _ in range(self.r.choice([0, 1, 2, 3])):
                    s = self.fresh('s')
                    so = self.r.choice(
                        [x for x in self.base_sorts()
                         if x[0] != 'DT' or x[1] not in names] or [BOOL])
                    sels.append((s, so))
                conss.append((c, sels))
            # a nullary constructor, placed *after* constructors with
            # selectors half of the time
            nul = (self.fresh('C'), [])
            if self.r.random() < 0.5:
                conss.append(nul)
            else:
                conss.insert(0, nul)
            self.dts[name] = conss
            bodies.append([[c] + [[s, sort_nested(so, None, self.r)]
                                  for s, so in sels] for c, sels in conss])
        self.commands.append(['declare-datatypes',
                              [[n, '0'] for n in names], bodies])

    def declare_sort(self):
        n = self.fresh('U')
        self.usorts.append(n)
        self.commands.append(['declare-sort', n, '0'])

    def define_fun(self):
        n = self.fresh('g')
        params = [(self.fresh('p'), self.rand_sort(False))
                  for _ in range(self.r.choice([0, 1, 1, 2, 3]))]
        res = self.rand_sort(False)
        scope = {}
        for p, s in params:
            scope.setdefault(s, []).append(p)
        self.bound.append(scope)
        self._binder_depth += 1
        body = self.term(res, self.r.randint(1, 3))
        self._binder_depth -= 1
        self.bound.pop()
        self.defs.append((n, params, res, body))
        self.commands.append(
            Cmd([
                'define-fun', n,
                [[p, sort_nested(s, None, self.r)] for p, s in params],
                sort_nested(res, None, self.r), body
            ]))

    # -- terms ---------------------------------------------------------
    def var(self, sort):
        """A variable (bound or declared) of ``sort``; declares one if
        necessary."""
        cands = []
        for scope in self.bound:
            cands += scope.get(sort, [])
        # inside define-fun bodies, only parameters and global constants
        cands += self.consts.get(sort, [])
        if not cands or (self.r.random() < 0.15
                         and len(self.consts.get(sort, [])) < 4):
            if self._can_declare:
                return Term(sort, leaf=self.declare_const(sort))
        if not cands:
            return self.literal(sort)
        return Term(sort, leaf=self.r.choice(cands))

    def literal(self, sort):
        r = self.r
        k = sort[0]
        if k == 'Bool':
            return Term(sort, leaf=r.choice(['true', 'false']))
        if k == 'Int':
            return Term(sort, leaf=str(r.choice([0, 1, 2, 3, 7, 10, 42, 100])))
        if k == 'Real':
            return Term(sort,
                        leaf=r.choice(
                            ['0.0', '1.0', '2.5', '0.25', '10.0', '3.75']))
        if k == 'BV':
            n = sort[1]
            v = r.choice([0, 1, (1 << n) - 1, r.getrandbits(n)])
            c = r.random()
            if c < 0.4:
                return Term(sort, leaf='#b' + format(v, f'0{n}b'))
            if c < 0.6 and n % 4 == 0:
                return Term(sort, leaf='#x' + format(v, f'0{n // 4}x'))
            return Term(sort, items=['_', f'bv{v}', str(n)], op='bvconst')
        if k == 'FP':
            e, s = sort[1], sort[2]
            c = r.random()
            if c < 0.5:
                return Term(sort,
                            items=[
                                'fp',
                                self.literal(BV(1)),
                                self.literal(BV(e)),
                                self.literal(BV(s - 1))
                            ],
                            op='fp')
            special = r.choice(['+zero', '-zero', 'NaN', '+oo', '-oo'])
            return Term(sort, items=['_', special, str(e), str(s)],
                        op='fpconst')
        if k == 'RM':
            return Term(sort,
                        leaf=r.choice(['RNE', 'RNA', 'RTP', 'RTN', 'RTZ']))
        if k == 'String':
            return Term(sort,
                        leaf=r.choice([
                            '""', '"a"', '"ab"', '"hello world"', '"x""y"',
                            '"(;)"', '"a\\u{3bb}b"', '"0123456789"'
                        ]))
        if k == 'Seq':
            return Term(sort,
                        items=['as', 'seq.empty',
                               sort_nested(sort, None, r)],
                        op='seq.empty')
        if k == 'DT':
            nullary = [c for c, sels in self.dts[sort[1]] if not sels]
            return Term(sort, leaf=r.choice(nullary))
        if k == 'Array':
            if sort[2][0] not in ('Bool', 'Int', 'Real', 'BV', 'String') or \
                    (sort[2][0] == 'BV' and self.r.random() < 0.5):
                if self._can_declare:
                    return Term(sort, leaf=self.declare_const(sort))
            # ((as const (Array I E)) e)
            return Term(sort,
                        items=[['as', 'const',
                                sort_nested(sort, None, r)],
                               self.literal(sort[2])],
                        op='constarray')
        if k == 'U':
            return Term(sort, leaf=self.declare_const(sort)) \
                if self._can_declare else self.var(sort)
        if k == 'RegLan':
            return Term(sort, items=['str.to_re', self.literal(STRING)],
                        op='str.to_re')
        raise ValueError(sort)

    _can_declare = True
    _binder_depth = 0

    def term(self, sort, depth):
        r = self.r
        if depth <= 0 or r.random() < 0.15:
            return self.var(sort) if r.random() < 0.6 else self.literal(sort)
        makers = [self._op_term]
        makers.append(self._op_term)
        if sort[0] != 'RegLan':
            makers.append(self._ite)
            if 'let' in self.th and r.random() < 0.5:
                makers.append(self._let)
            if 'uf' in self.th and any(f[2] == sort for f in self.funs):
                makers.append(self._uf_app)
            if 'defs' in self.th and any(d[2] == sort for d in self.defs):
                makers.append(self._def_app)
            if 'arrays' in self.th and r.random() < 0.3:
                makers.append(self._select)
            if 'dt' in self.th and self.dts and r.random() < 0.3:
                makers.append(self._selector)
            if 'annot' in self.th and r.random() < 0.1 and not self._binder_depth:
                makers.append(self._annot)
        t = r.choice(makers)(sort, depth)
        if t is None:
            t = self._op_term(sort, depth)
        if t is None:
            t = self.var(sort)
        return t

    def _ite(self, sort, depth):
        return Term(sort,
                    items=[
                        'ite',
                        self.term(BOOL, depth - 1),
                        self.term(sort, depth - 1),
                        self.term(sort, depth - 1)
                    ],
                    op='ite')

    def _let(self, sort, depth):
        self._binder_depth += 1
        try:
            return self._let2(sort, depth)
        finally:
            self._binder_depth -= 1

    def _let2(self, sort, depth):
        n = self.r.randint(1, 3)
        binds = _Bindings()
        scope = {}
        for _ in range(n):
            s = self.rand_sort(False)
            t = self.term(s, depth - 1)
            name = self.fresh('l')
            binds.append([name, t])
            scope.setdefault(s, []).append(name)
        self.bound.append(scope)
        body = self.term(sort, depth - 1)
        self.bound.pop()
        return Term(sort, items=['let', binds, body], op='let')

    def _uf_app(self, sort, depth):
        f = self.r.choice([f for f in self.funs if f[2] == sort])
        return Term(sort,
                    items=[f[0]] + [self.term(a, depth - 1) for a in f[1]],
                    op='uf')

    def _def_app(self, sort, depth):
        d = self.r.choice([d for d in self.defs if d[2] == sort])
        if not d[1]:
            return Term(sort, leaf=d[0], op='defconst')
        return Term(sort,
                    items=[d[0]] +
                    [self.term(s, depth - 1) for _, s in d[1]],
                    op='defapp')

    def _select(self, sort, depth):
        idx = self.r.choice([INT] if 'ints' in self.th else [BOOL] +
                            ([BV(4)] if 'bv' in self.th else []))
        asort = ('Array', idx, sort)
        if self.r.random() < 0.4:
            arr = Term(asort,
                       items=[
                           'store',
                           self.var(asort),
                           self.term(idx, depth - 1),
                           self.term(sort, depth - 1)
                       ],
                       op='store')
        else:
            arr = self.var(asort)
        return Term(sort,
                    items=['select', arr,
                           self.term(idx, depth - 1)],
                    op='select')

    def _selector(self, sort, depth):
        cands = []
        for dn, conss in self.dts.items():
            for c, sels in conss:
                for i, (s, so) in enumerate(sels):
                    if so == sort:
                        cands.append((dn, c, sels, i, s))
        if not cands:
            return None
        dn, c, sels, i, s = self.r.choice(cands)
        if self.r.random() < 0.6:
            # selector applied to its own constructor (identity shape)
            arg = Term(('DT', dn),
                       items=[c] +
                       [self.term(so, depth - 1) for _, so in sels],
                       op='constructor')
        else:
            arg = self.term(('DT', dn), depth - 1)
        return Term(sort, items=[s, arg], op='selector')

    def _annot(self, sort, depth):
        t = self.term(sort, depth - 1)
        return Term(sort,
                    items=['!', t, ':named', self.fresh('n')],
                    op='!')

    def _quant(self, depth):
        q = self.r.choice(['forall', 'exists'])
        scope = {}
        binders = []
        for _ in range(self.r.randint(1, 2)):
            s = self.r.choice(
                [x for x in self.base_sorts() if x[0] in ('Bool', 'BV', 'Int')
                 and (x[0] != 'BV' or x[1] <= 2)] or [BOOL])
            n = self.fresh('q')
            binders.append([n, sort_nested(s, None, self.r)])
            scope.setdefault(s, []).append(n)
        self.bound.append(scope)
        self._binder_depth += 1
        body = self.term(BOOL, depth - 1)
        self._binder_depth -= 1
        self.bound.pop()
        return Term(BOOL, items=[q, binders, body], op=q)

    def _op_term(self, sort, depth):  # noqa: C901
        r = self.r
        k = sort[0]
        d = depth - 1
        T = self.term

        def app(op, *args, res=sort, name=None):
            return Term(res, items=[op] + list(args), op=name or (
                op if isinstance(op, str) else op[1]))

        def nary(op, s, lo=2, hi=4):
            return app(op, *[T(s, d) for _ in range(r.randint(lo, hi))])

        if k == 'Bool':
            choices = ['not', 'and', 'or', 'xor', '=>', '=', 'distinct']
            if 'ints' in self.th:
                choices += ['icmp', 'icmp', 'divisible']
            if 'reals' in self.th:
                choices += ['rcmp', 'is_int']
            if 'bv' in self.th:
                choices += ['bvcmp', 'bvcmp']
            if 'fp' in self.th:
                choices += ['fpcmp', 'fpclass']
            if 'strings' in self.th:
                choices += ['strpred', 'str.in_re']
            if 'quant' in self.th:
                choices += ['quant']
            if 'dt' in self.th and self.dts:
                choices += ['tester']
            c = r.choice(choices)
            if c == 'not':
                return app('not', T(BOOL, d))
            if c in ('and', 'or', 'xor', '=>'):
                return nary(c, BOOL, 2 if c != 'and' else 1, 4)
            if c in ('=', 'distinct'):
                s = self.rand_sort()
                if s[0] == 'RegLan':
                    s = BOOL
                return nary(c, s, 2, 3)
            if c == 'icmp':
                return nary(r.choice(['<', '<=', '>', '>=']), INT, 2, 3)
            if c == 'rcmp':
                return nary(r.choice(['<', '<=', '>', '>=']), REAL, 2, 3)
            if c == 'divisible':
                return app(['_', 'divisible', str(r.randint(1, 5))], T(INT, d))
            if c == 'is_int':
                return app('is_int', T(REAL, d))
            if c == 'bvcmp':
                s = BV(r.randint(1, self.max_bv))
                return app(
                    r.choice([
                        'bvult', 'bvule', 'bvugt', 'bvuge', 'bvslt', 'bvsle',
                        'bvsgt', 'bvsge'
                    ]), T(s, d), T(s, d))
            if c == 'fpcmp':
                s = r.choice([('FP', 5, 11), ('FP', 3, 5)])
                return nary(
                    r.choice(['fp.leq', 'fp.lt', 'fp.geq', 'fp.gt', 'fp.eq']),
                    s, 2, 3)
            if c == 'fpclass':
                s = r.choice([('FP', 5, 11), ('FP', 3, 5)])
                return app(
                    r.choice([
                        'fp.isNormal', 'fp.isSubnormal', 'fp.isZero',
                        'fp.isInfinite', 'fp.isNaN', 'fp.isNegative',
                        'fp.isPositive'
                    ]), T(s, d))
            if c == 'strpred':
                op = r.choice([
                    'str.<', 'str.<=', 'str.prefixof', 'str.suffixof',
                    'str.contains', 'str.is_digit'
                ])
                if op == 'str.is_digit':
                    return app(op, T(STRING, d))
                return app(op, T(STRING, d), T(STRING, d))
            if c == 'str.in_re':
                return app('str.in_re', T(STRING, d), T(REGLAN, 1))
            if c == 'quant':
                return self._quant(depth)
            if c == 'tester':
                dn = r.choice(list(self.dts))
                cons = r.choice(self.dts[dn])[0]
                return app(['_', 'is', cons], T(('DT', dn), d))
        if k == 'Int':
            choices = ['+', '-', '*', 'div', 'mod', 'abs', 'neg']
            if 'reals' in self.th:
                choices.append('to_int')
            if 'strings' in self.th:
                choices += ['str.len', 'str.indexof', 'str.to_int',
                            'str.to_code']
            c = r.choice(choices)
            if c in ('+', '-', '*'):
                return nary(c, INT, 2, 3)
            if c in ('div', 'mod'):
                return app(c, T(INT, d), T(INT, d))
            if c == 'abs':
                return app('abs', T(INT, d))
            if c == 'neg':
                return app('-', T(INT, d), name='neg')
            if c == 'to_int':
                return app('to_int', T(REAL, d))
            if c == 'str.len':
                return app('str.len', T(STRING, d))
            if c == 'str.indexof':
                return app('str.indexof', T(STRING, d), T(STRING, d),
                           T(INT, d))
            if c in ('str.to_int', 'str.to_code'):
                return app(c, T(STRING, d))
        if k == 'Real':
            choices = ['+', '-', '*', '/', 'neg']
            if 'ints' in self.th:
                choices.append('to_real')
            if 'fp' in self.th:
                choices.append('fp.to_real')
            c = r.choice(choices)
            if c in ('+', '-', '*', '/'):
                return nary(c, REAL, 2, 3)
            if c == 'neg':
                return app('-', T(REAL, d), name='neg')
            if c == 'to_real':
                return app('to_real', T(INT, d))
            if c == 'fp.to_real':
                return app('fp.to_real', T(('FP', 5, 11), d))
        if k == 'BV':
            n = sort[1]
            choices = [
                'un', 'bin', 'bin', 'nary', 'ite1', 'zext', 'sext', 'rot'
            ]
            if n == 1:
                choices += ['bvcomp', 'bvcomp']
            if n >= 2:
                choices += ['concat', 'concat']
            if n < 16:
                choices += ['extract', 'extract']
            if n % 2 == 0 or n % 3 == 0:
                choices.append('repeat')
            if 'fp' in self.th:
                choices.append('fp.to_bv')
            c = r.choice(choices)
            if c == 'un':
                return app(r.choice(['bvnot', 'bvneg']), T(sort, d))
            if c == 'bin':
                return app(
                    r.choice([
                        'bvudiv', 'bvurem', 'bvshl', 'bvlshr', 'bvashr',
                        'bvsub', 'bvxor', 'bvnand', 'bvnor', 'bvxnor',
                        'bvsdiv', 'bvsrem', 'bvsmod'
                    ]), T(sort, d), T(sort, d))
            if c == 'nary':
                return nary(r.choice(['bvand', 'bvor', 'bvadd', 'bvmul']),
                            sort, 2, 3)
            if c == 'ite1':
                s2 = BV(r.randint(1, self.max_bv))
                if n == 1 and r.random() < 0.7:
                    # the shape BVIteToBVComp looks for
                    return Term(sort,
                                items=[
                                    'ite',
                                    app('=', T(s2, d), T(s2, d), res=BOOL),
                                    Term(BV(1), leaf='#b1'),
                                    Term(BV(1), leaf='#b0')
                                ],
                                op='ite')
                return self._ite(sort, depth)
            if c in ('zext', 'sext'):
                ext = r.randint(0, n - 1) if n > 1 else 0
                inner = BV(n - ext)
                op = 'zero_extend' if c == 'zext' else 'sign_extend'
                return app(['_', op, str(ext)], T(inner, d))
            if c == 'rot':
                return app([
                    '_',
                    r.choice(['rotate_left', 'rotate_right']),
                    str(r.randint(0, n + 1))
                ], T(sort, d))
            if c == 'bvcomp':
                s2 = BV(r.randint(1, self.max_bv))
                return app('bvcomp', T(s2, d), T(s2, d))
            if c == 'concat':
                parts = r.randint(2, min(3, n))
                cuts = sorted(r.sample(range(1, n), parts - 1))
                ws = [b - a for a, b in zip([0] + cuts, cuts + [n])]
                return app('concat', *[T(BV(w), d) for w in ws])
            if c == 'extract':
                m = r.randint(n, min(n + 8, 24))
                lo = r.randint(0, m - n)
                hi = lo + n - 1
                return app(['_', 'extract', str(hi), str(lo)], T(BV(m), d))
            if c == 'repeat':
                ks = [x for x in (2, 3) if n % x == 0]
                kk = r.choice(ks)
                return app(['_', 'repeat', str(kk)], T(BV(n // kk), d))
            if c == 'fp.to_bv':
                return app(
                    ['_', r.choice(['fp.to_ubv', 'fp.to_sbv']),
                     str(n)], T(RM, 0), T(('FP', 5, 11), d))
        if k == 'FP':
            c = r.choice([
                'un', 'bin', 'rm1', 'rm2', 'fma', 'fp', 'to_fp_fp',
                'to_fp_real', 'to_fp_bv', 'to_fp_unsigned', 'minmax'
            ])
            e, s = sort[1], sort[2]
            if c == 'un':
                return app(r.choice(['fp.abs', 'fp.neg']), T(sort, d))
            if c == 'bin':
                return app('fp.rem', T(sort, d), T(sort, d))
            if c == 'minmax':
                return app(r.choice(['fp.min', 'fp.max']), T(sort, d),
                           T(sort, d))
            if c == 'rm1':
                return app(r.choice(['fp.sqrt', 'fp.roundToIntegral']),
                           T(RM, 1), T(sort, d))
            if c == 'rm2':
                return app(
                    r.choice(['fp.add', 'fp.sub', 'fp.mul', 'fp.div']),
                    T(RM, 1), T(sort, d), T(sort, d))
            if c == 'fma':
                return app('fp.fma', T(RM, 1), T(sort, d), T(sort, d),
                           T(sort, d))
            if c == 'fp':
                return app('fp', T(BV(1), d), T(BV(e), d), T(BV(s - 1), d))
            if c == 'to_fp_fp':
                return app(['_', 'to_fp', str(e), str(s)], T(RM, 1),
                           T(r.choice([('FP', 5, 11), ('FP', 3, 5)]), d))
            if c == 'to_fp_real' and 'reals' in self.th:
                return app(['_', 'to_fp', str(e), str(s)], T(RM, 1),
                           T(REAL, d))
            if c == 'to_fp_bv' and 'bv' in self.th and e + s <= 24:
                return app(['_', 'to_fp', str(e), str(s)], T(BV(e + s), d))
            if c == 'to_fp_unsigned' and 'bv' in self.th:
                return app(['_', 'to_fp_unsigned',
                            str(e), str(s)], T(RM, 1),
                           T(BV(r.randint(1, self.max_bv)), d))
            return app(r.choice(['fp.abs', 'fp.neg']), T(sort, d))
        if k == 'RM':
            return None
        if k == 'String':
            c = r.choice([
                'str.++', 'str.at', 'str.substr', 'str.replace',
                'str.replace_all', 'str.from_int', 'str.from_code'
            ])
            if c == 'str.++':
                return nary(c, STRING, 2, 3)
            if c == 'str.at':
                return app(c, T(STRING, d), T(INT, d)) \
                    if 'ints' in self.th else None
            if c == 'str.substr':
                return app(c, T(STRING, d), T(INT, d), T(INT, d)) \
                    if 'ints' in self.th else None
            if c in ('str.replace', 'str.replace_all'):
                return app(c, T(STRING, d), T(STRING, d), T(STRING, d))
            if c in ('str.from_int', 'str.from_code'):
                return app(c, T(INT, d)) if 'ints' in self.th else None
        if k == 'Seq':
            c = r.choice(['seq.unit', 'seq.++'])
            if c == 'seq.unit':
                return app('seq.unit', T(sort[1], d))
            return nary('seq.++', sort, 2, 2)
        if k == 'Array':
            return app('store', T(sort, d), T(sort[1], d), T(sort[2], d))
        if k == 'DT':
            conss = self.dts[sort[1]]
            c, sels = r.choice(conss)
            if not sels:
                return Term(sort, leaf=c, op='constructor0')
            return app(c, *[T(so, d) for _, so in sels], name='constructor')
        if k == 'RegLan':
            return app('str.to_re', T(STRING, 0))
        return None

    # -- whole scripts ----------------------------------------------------
    def script(self, nasserts=4, depth=3, logic=None):
        r = self.r
        if 'dt' in self.th:
            for _ in range(r.randint(1, 2)):
                self.declare_datatype()
            if r.random() < 0.4:
                self.declare_datatypes_group(r.randint(2, 3))
        if 'uf' in self.th:
            if r.random() < 0.5:
                self.declare_sort()
            for _ in range(r.randint(1, 2)):
                self.declare_fun()
        for s in self.base_sorts():
            if r.random() < 0.6:
                self.declare_const(s)
        if 'defs' in self.th:
            for _ in range(r.randint(1, 2)):
                self.define_fun()
        asserts = []
        for _ in range(nasserts):
            asserts.append(Cmd(['assert', self.term(BOOL, depth)]))
        head = []
        if logic is not False:
            head.append(['set-logic', logic or 'ALL'])
        if r.random() < 0.3:
            head.append(['set-info', ':status', 'unknown'])
        if r.random() < 0.2:
            head.append(['set-option', ':produce-models', 'true'])
        tail = [['check-sat']]
        if r.random() < 0.2:
            tail = [['check-sat-assuming', [self.term(BOOL, 1).nested()]]]
        if r.random() < 0.3:
            tail.append(['get-model'])
        if r.random() < 0.3:
            tail.append(['exit'])
        cmds = head + self.commands + asserts + tail
        return Script(cmds)


class Cmd:
    """A command that contains typed terms (assert / define-fun)."""

    def __init__(self, items):
        self.items = items

    def nested(self):
        return [_nest(x) for x in self.items]

    def positions(self, path):
        for i, x in enumerate(self.items):
            if isinstance(x, Term):
                yield from x.positions(path + (i, ))


class Script:

    def __init__(self, cmds):
        self.cmds = cmds

    def nested(self):
        return [c.nested() if isinstance(c, Cmd) else c for c in self.cmds]

    def positions(self):
        """(path, Term) for every term position of the script; path indexes
        into nested()."""
        for i, c in enumerate(self.cmds):
            if isinstance(c, Cmd):
                yield from c.positions((i, ))

    def text(self):
        from . import refreader
        return refreader.render(self.nested())


def random_script(r, theories=None, nasserts=None, depth=None, **kw):
    if theories is None:
        pool = ['ints', 'reals', 'bv', 'fp', 'strings', 'arrays', 'dt', 'uf',
                'let', 'quant', 'defs', 'annot']
        k = r.randint(1, len(pool))
        theories = ['core'] + r.sample(pool, k)
    g = Gen(r, theories, **kw)
    return g.script(nasserts if nasserts is not None else r.randint(1, 5),
                    depth if depth is not None else r.randint(1, 4))


def get_path(nested, path):
    x = nested
    for i in path:
        x = x[i]
    return x
