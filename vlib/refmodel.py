"""Independent models on plain nested Python lists (leaf = str)."""
import collections


def to_nested(node):
    """ddsmt Node -> nested list / str (iterative)."""
    d = node.data
    if isinstance(d, str):
        return d
    out = []
    stack = [(iter(d), out)]
    while stack:
        it, acc = stack[-1]
        try:
            n = next(it)
        except StopIteration:
            stack.pop()
            continue
        if isinstance(n.data, str):
            acc.append(n.data)
        else:
            sub = []
            acc.append(sub)
            stack.append((iter(n.data), sub))
    return out


def to_nested_list(exprs):
    return [to_nested(e) for e in exprs]


def snapshot(exprs):
    """Deep snapshot including ids and python identities: a nested tuple
    (id, pyid, data-or-children)."""

    def rec(n):
        if isinstance(n.data, str):
            return (n.id, id(n), n.data)
        return (n.id, id(n), tuple(rec(c) for c in n.data))

    return tuple(rec(e) for e in exprs)


def build(ns_Node, tree):
    """nested list / str -> real Node (fresh ids)."""
    if isinstance(tree, str):
        return ns_Node(tree)
    kids = [build(ns_Node, t) for t in tree]
    if not kids:
        return ns_Node()
    # Node(x) with a single str/int argument makes a leaf, so always hand
    # over Node objects
    return ns_Node(*kids)


def dfs(items, max_depth=None, root=None):
    """Pre-order; nodes deeper than max_depth are not visited (top level =
    depth 1).  ``items`` is a list of trees; if ``root`` is given it is
    yielded first (depth 0)."""
    out = []
    if root is not None:
        out.append(root)

    def rec(t, d):
        out.append(t)
        if isinstance(t, list) and (not max_depth or d < max_depth):
            for c in t:
                rec(c, d + 1)

    for t in items:
        rec(t, 1)
    return out


def bfs(items, max_depth=None, root=None):
    out = []
    if root is not None:
        out.append(root)
    q = collections.deque((t, 1) for t in items)
    while q:
        t, d = q.popleft()
        out.append(t)
        if isinstance(t, list) and (not max_depth or d < max_depth):
            q.extend((c, d + 1) for c in t)
    return out


def count_nodes(items):
    return len(dfs(items))


def count_exprs(items):
    return sum(1 for t in dfs(items) if isinstance(t, list))


def insert_decls(items, decls):
    pos = 0
    while pos < len(items):
        e = items[pos]
        if not (isinstance(e, list) and e and isinstance(e[0], str)
                and e[0] in ('set-info', 'set-logic')):
            break
        pos += 1
    return items[:pos] + decls + items[pos:]


def substitute(exprs, id_map, struct_pairs):
    """Model of applying a simplification to a list of real Nodes (read
    only).  ``id_map``: {node id: nested replacement | None}; ``struct_pairs``:
    [(nested key, nested replacement | None)].  Designated positions are
    computed on the input, outermost first; replacements are inserted
    verbatim.  Returns (nested result, number of designated positions hit,
    set of python ids of maximal untouched input subtrees)."""
    hits = 0
    untouched = set()

    def designated(n):
        if n.id in id_map:
            return True, id_map[n.id]
        t = to_nested(n)
        for k, v in struct_pairs:
            if t == k:
                return True, v
        return False, None

    def contains_designated(n):
        stack = [n]
        while stack:
            x = stack.pop()
            if designated(x)[0]:
                return True
            if not isinstance(x.data, str):
                stack.extend(x.data)
        return False

    def rec(n):
        nonlocal hits
        is_d, v = designated(n)
        if is_d:
            hits += 1
            return [] if v is None else [v]
        if isinstance(n.data, str):
            untouched.add(id(n))
            return [n.data]
        if not contains_designated(n):
            untouched.add(id(n))
            return [to_nested(n)]
        out = []
        for c in n.data:
            out.extend(rec(c))
        return [out]

    res = []
    for e in exprs:
        res.extend(rec(e))
    return res, hits, untouched


def reduplicate_ok(before_snapshot, after_exprs):
    """Oracle for nodes.reduplicate: returns a list of problems.  ``before``
    is a snapshot(...) of the input."""
    problems = []
    # ids seen once in the input keep id (and python identity if all their
    # descendants were unique as well)
    counts = collections.Counter()

    def walk(s):
        counts[s[0]] += 1
        if not isinstance(s[2], str):
            for c in s[2]:
                walk(c)

    for s in before_snapshot:
        walk(s)
    seen = collections.Counter()
    stack = list(after_exprs)
    while stack:
        n = stack.pop()
        seen[n.id] += 1
        if not isinstance(n.data, str):
            stack.extend(n.data)
    dups = [i for i, c in seen.items() if c > 1]
    if dups:
        problems.append(f'{len(dups)} ids still repeated, e.g. {dups[:3]}')
    return problems, counts
