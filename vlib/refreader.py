"""Independent SMT-LIB 2.6 lexer / reader / flattener.

Written from section 3.1 of the SMT-LIB standard (not from ddsmt.nodeio):

* white space: space, tab, line feed, carriage return;
* comment: from ';' (outside a string literal or quoted symbol) to the end
  of the line;
* string literal: '"' ... '"', where '""' inside stands for one '"';
* quoted symbol: '|' ... '|' (any characters except '|' and '\\');
* parentheses are tokens of their own;
* every other token is a maximal run of characters that are none of
  white space, '(', ')', ';', '"', '|'.

Trees are plain nested Python lists of str; comments are kept as leaves that
start with ';' (without the line end).
"""
import re

WS = ' \t\n\r'
_STOP = set(WS) | set('();"|')

FRESH_RE = re.compile(r'^x[0-9]+__fresh$')


class LexError(Exception):
    pass


def lex(text, comments=True, tolerant=False):
    """Return the list of tokens of ``text``.  Comment tokens start with
    ';' and are only included if ``comments``.  If not ``tolerant`` an
    unterminated literal raises LexError, otherwise it extends to EOF."""
    toks = []
    i = 0
    n = len(text)
    while i < n:
        c = text[i]
        if c in WS:
            i += 1
        elif c == '(' or c == ')':
            toks.append(c)
            i += 1
        elif c == ';':
            j = i
            while j < n and text[j] not in '\n\r':
                j += 1
            if comments:
                toks.append(text[i:j])
            i = j
        elif c == '"':
            j = i + 1
            while True:
                if j >= n:
                    if tolerant:
                        break
                    raise LexError(f'unterminated string literal at {i}')
                if text[j] == '"':
                    if j + 1 < n and text[j + 1] == '"':
                        j += 2
                        continue
                    j += 1
                    break
                j += 1
            toks.append(text[i:j])
            i = j
        elif c == '|':
            j = text.find('|', i + 1)
            if j < 0:
                if not tolerant:
                    raise LexError(f'unterminated quoted symbol at {i}')
                j = n - 1
            toks.append(text[i:j + 1])
            i = j + 1
        else:
            j = i + 1
            while j < n and text[j] not in _STOP:
                j += 1
            toks.append(text[i:j])
            i = j
    return toks


def is_comment(tok):
    return isinstance(tok, str) and tok.startswith(';')


def read_tokens(toks):
    """Tokens -> list of top-level items (nested lists / str)."""
    stack = [[]]
    for t in toks:
        if t == '(':
            stack.append([])
        elif t == ')':
            if len(stack) == 1:
                raise LexError('unbalanced )')
            done = stack.pop()
            stack[-1].append(done)
        else:
            stack[-1].append(t)
    if len(stack) != 1:
        raise LexError('unbalanced (')
    return stack[0]


def read(text, comments=True):
    return read_tokens(lex(text, comments))


def flatten(tree, out=None):
    """List of top-level items (nested lists / str) -> token list
    (iterative; deep trees are fine)."""
    out = [] if out is None else out
    stack = [iter(tree)]
    while stack:
        try:
            x = next(stack[-1])
        except StopIteration:
            stack.pop()
            if stack:
                out.append(')')
            continue
        if isinstance(x, list):
            out.append('(')
            stack.append(iter(x))
        else:
            out.append(x)
    return out


def flatten_item(item):
    """One item (list or str) -> tokens."""
    if isinstance(item, list):
        return ['('] + flatten(item) + [')']
    return [item]


def strip_comments(toks):
    return [t for t in toks if not is_comment(t)]


def canon_fresh(toks):
    """Canonicalise ddSMT's fresh names (they embed incidental node ids)."""
    return ['x#__fresh' if FRESH_RE.match(t) else t for t in toks]


def fnv1a(toks):
    """FNV-1a 64 over the tokens, each followed by a NUL byte; the same
    function is implemented in vcmd.c."""
    h = 0xcbf29ce484222325
    for t in toks:
        for b in t.encode('utf-8', 'surrogateescape'):
            h ^= b
            h = (h * 0x100000001b3) & 0xFFFFFFFFFFFFFFFF
        h = (h * 0x100000001b3) & 0xFFFFFFFFFFFFFFFF  # xor with 0 == identity
    return h


def token_digest(text, canon=True):
    """Digest of the token sequence of ``text`` (comments ignored, fresh
    names canonicalised): the notion of 'same candidate' of the checks."""
    toks = strip_comments(lex(text, tolerant=True))
    if canon:
        toks = canon_fresh(toks)
    return '%016x' % fnv1a(toks)


def render(tree, sep=' '):
    """Render top-level items, one per line, tokens separated by ``sep``;
    comments get their own line end."""
    lines = []
    for item in tree:
        toks = flatten_item(item)
        buf = []
        for t in toks:
            if is_comment(t):
                buf.append(t + '\n')
            else:
                buf.append(t)
        s = ''
        prev = None
        for t in buf:
            if prev is not None and not (prev == '(' or t == ')'):
                s += sep
            s += t
            prev = t
        lines.append(s)
    return '\n'.join(lines) + '\n'


# ---- conversion from ddsmt Nodes (duck-typed: .data is str or tuple) ----


def from_nodes(exprs):
    """ddsmt Node list -> nested lists (iterative)."""
    out = []
    stack = [(iter(exprs), out)]
    while stack:
        it, acc = stack[-1]
        try:
            n = next(it)
        except StopIteration:
            stack.pop()
            continue
        d = n.data if hasattr(n, 'data') else n
        if isinstance(d, str):
            acc.append(d)
        else:
            sub = []
            acc.append(sub)
            stack.append((iter(d), sub))
    return out


def norm_comment(tok):
    """Comment leaves are compared modulo their trailing line end."""
    if is_comment(tok):
        return tok.rstrip('\r\n')
    return tok


def norm_tree(tree):
    """Nested lists with comment leaves normalised (iterative)."""
    out = []
    stack = [(iter(tree), out)]
    while stack:
        it, acc = stack[-1]
        try:
            x = next(it)
        except StopIteration:
            stack.pop()
            continue
        if isinstance(x, list):
            sub = []
            acc.append(sub)
            stack.append((iter(x), sub))
        else:
            acc.append(norm_comment(x))
    return out
