"""Shape injection: assert terms containing the syntactic shapes that
specific mutators look for, with random well-sorted operands."""
from . import gen_smt


def inject_shapes(g, r, depth=2, extra=False, count=None):
    """Extra assert terms containing the shapes the identity mutators look
    for, with random well-sorted operands."""
    T = gen_smt.Term
    BOOL = gen_smt.BOOL
    out = []

    def term(s):
        return g.term(s, depth)

    def app(res, op, *args, name=None):
        return T(res, items=[op] + list(args), op=name or (
            op if isinstance(op, str) else op[1]))

    def bvconst(w, v=None, notation=None):
        v = r.getrandbits(w) if v is None else v
        notation = notation or r.choice(['b', 'x', '_'])
        if notation == 'x' and w % 4:
            notation = 'b'
        if notation == 'b':
            return T(gen_smt.BV(w), leaf='#b' + format(v, f'0{w}b'))
        if notation == 'x':
            return T(gen_smt.BV(w), leaf='#x' + format(v, f'0{w // 4}x'))
        return T(gen_smt.BV(w), items=['_', f'bv{v}', str(w)], op='bvconst')

    shapes = []
    # propositional
    shapes.append(lambda: app(BOOL, 'not', app(BOOL, 'not', term(BOOL))))
    shapes.append(lambda: app(
        BOOL, 'not',
        app(BOOL, r.choice(['and', 'or']),
            *[term(BOOL) for _ in range(r.randint(1, 4))])))
    shapes.append(lambda: app(BOOL, '=', T(BOOL, leaf='false'), term(BOOL)))
    shapes.append(lambda: app(BOOL, '=', term(BOOL), T(BOOL, leaf='false')))
    shapes.append(lambda: app(BOOL, 'xor', term(BOOL), term(BOOL)))
    shapes.append(lambda: app(BOOL, '=>', term(BOOL), term(BOOL)))
    if 'quant' in g.th:
        shapes.append(lambda: app(BOOL, 'not', g._quant(depth)))
    if 'ints' in g.th or 'reals' in g.th:
        def negrel():
            s = r.choice([x for x in (gen_smt.INT, gen_smt.REAL)
                          if x[0].lower() + 's' in g.th])
            rel = r.choice(['<', '<=', '>', '>=', '=', 'distinct'])
            return app(BOOL, 'not', app(BOOL, rel, term(s), term(s)))
        shapes.append(negrel)
    if 'bv' in g.th:
        def w():
            return r.choice([1, 2, 3, 4, 5, 8])

        def ext_const():
            ww = r.choice([1, 2, 3, 4, 8, 16, 32, 64])
            k = r.choice([0, 1, 2, 5])
            op = r.choice(['zero_extend', 'sign_extend'])
            c = bvconst(ww, r.choice([None, 0, (1 << ww) - 1,
                                      1 << (ww - 1)]))
            return eqwrap(app(gen_smt.BV(ww + k), ['_', op, str(k)], c))

        def extract_const():
            ww = r.choice([1, 2, 3, 4, 8, 16, 32])
            hi = r.randint(0, ww - 1)
            lo = r.randint(0, hi)
            return eqwrap(
                app(gen_smt.BV(hi - lo + 1), ['_', 'extract', str(hi),
                                               str(lo)], bvconst(ww)))

        def extract_zext():
            ww = w()
            k = r.randint(0, 6)
            hi = r.randint(0, ww + k - 1)
            lo = r.randint(0, hi)
            inner = app(gen_smt.BV(ww + k), ['_', 'zero_extend', str(k)],
                        term(gen_smt.BV(ww)))
            return eqwrap(
                app(gen_smt.BV(hi - lo + 1), ['_', 'extract', str(hi),
                                               str(lo)], inner))

        def merge_ext():
            ww = w()
            op = r.choice(['zero_extend', 'sign_extend'])
            t = term(gen_smt.BV(ww))
            tot = ww
            for _ in range(r.randint(2, 3)):
                k = r.randint(0, 3)
                tot += k
                t = app(gen_smt.BV(tot), ['_', op, str(k)], t)
            return eqwrap(t)

        def dblneg():
            ww = w()
            op = r.choice(['bvnot', 'bvneg'])
            s = gen_smt.BV(ww)
            return eqwrap(app(s, op, app(s, op, term(s))))

        def nand():
            s = gen_smt.BV(w())
            t = term(s)
            return eqwrap(app(s, 'bvnand', t, t))

        def ite_comp():
            s = gen_smt.BV(w())
            one = r.choice([T(gen_smt.BV(1), leaf='#b1'),
                            T(gen_smt.BV(1), items=['_', 'bv1', '1'],
                              op='bvconst')])
            zero = r.choice([T(gen_smt.BV(1), leaf='#b0'),
                             T(gen_smt.BV(1), items=['_', 'bv0', '1'],
                               op='bvconst')])
            return eqwrap(
                T(gen_smt.BV(1),
                  items=['ite', app(BOOL, '=', term(s), term(s)), one, zero],
                  op='ite'))

        def elim_comp():
            s = gen_smt.BV(w())
            c = bvconst(1, r.choice([0, 1]))
            comp = app(gen_smt.BV(1), 'bvcomp', term(s), term(s))
            return app(BOOL, '=', c, comp)

        def eqwrap(t):
            return app(BOOL, '=', t, g.term(t.sort, 1))

        shapes += [ext_const, extract_const, extract_zext, merge_ext, dblneg,
                   nand, ite_comp, elim_comp]
    if extra:
        shapes += extra_shapes(g, r, term, app, T)
    for _ in range(count if count is not None else r.randint(2, 6)):
        out.append(r.choice(shapes)())
    return out


def extra_shapes(g, r, term, app, T):
    """Shapes for mutators that are not claimed to be identities."""
    BOOL = gen_smt.BOOL
    BV = gen_smt.BV
    shapes = []
    shapes.append(lambda: app(BOOL, 'xor', term(BOOL),
                              T(BOOL, leaf=r.choice(['true', 'false'])),
                              term(BOOL)))
    if 'ints' in g.th:
        INT = gen_smt.INT
        shapes.append(lambda: app(
            BOOL, r.choice(['<', '<=', '>', '>=', '=', 'distinct']),
            *[term(INT) for _ in range(r.randint(3, 4))]))
    if 'bv' in g.th:
        def zc():
            w = r.choice([1, 2, 4])
            k = r.choice([1, 2, 4])
            z = r.choice([T(BV(k), leaf='#b' + '0' * k),
                          T(BV(k), items=['_', 'bv0', str(k)], op='bvconst')])
            c = app(BV(w + k), 'concat', z, term(BV(w)))
            return app(BOOL, '=', c, term(BV(w + k)))

        def tobool():
            c = T(BV(1), leaf=r.choice(['#b1', '#b0']))
            o = app(BV(1), r.choice(['bvand', 'bvor', 'bvxor']), term(BV(1)),
                    term(BV(1)))
            return app(BOOL, '=', c, o) if r.random() < 0.5 else app(
                BOOL, '=', o, c)

        def zpred():
            w1, w2 = r.choice([(2, 2), (1, 3), (3, 1), (4, 2)])
            tot = 6
            a = app(BV(tot), ['_', 'zero_extend', str(tot - w1)], term(BV(w1)))
            b = app(BV(tot), ['_', 'zero_extend', str(tot - w2)], term(BV(w2)))
            return app(BOOL, r.choice(['=', 'distinct', 'bvult', 'bvsle']),
                       a, b)

        shapes += [zc, tobool, zpred]
    if 'strings' in g.th:
        S = gen_smt.STRING
        shapes.append(lambda: app(
            BOOL, '=', app(S, 'str.replace_all', term(S), term(S), term(S)),
            term(S)))
        shapes.append(lambda: app(BOOL, 'str.contains', term(S), term(S)))
        if 'ints' in g.th:
            I = gen_smt.INT
            shapes.append(lambda: app(
                BOOL, '<', app(I, 'str.indexof', term(S), term(S), term(I)),
                term(I)))
            SQ = ('Seq', I)
            shapes.append(lambda: app(
                BOOL, '=',
                app(I, 'seq.nth', app(SQ, 'seq.unit', term(I)),
                    T(I, leaf='0')), term(I)))
    return shapes


