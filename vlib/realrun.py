"""Harness for real end-to-end ddSMT runs observed from outside (plane A) and,
optionally, from inside through vlib.vlaunch (plane B)."""
import json
import os
import shutil
import signal
import subprocess
import time
import urllib.parse

from . import common, refreader, setup

WATCHDOG = 180  # generous wall-clock limit per run; firing => inconclusive


def vcmd_path():
    p = setup.build_vcmd()
    if not p:
        raise common.Inconclusive('vcmd could not be built')
    return p


def pct(s):
    return urllib.parse.quote(s, safe='', errors='surrogateescape')


def rule(pred, exit=0, out='', err='', fault=None, delay_us=0):
    """One spec line."""
    beh = f'exit={exit}'
    if out:
        beh += f' out={pct(out)}'
    if err:
        beh += f' err={pct(err)}'
    if fault:
        beh += f' fault={fault}'
    if delay_us:
        beh += f' delay={int(delay_us)}'
    return f'{pred} => {beh}'


def simple_spec(pred, exit=1, out='bug\n', err='', else_exit=0, else_out='ok\n',
                else_err=''):
    """Two-rule spec: ``pred`` gives the 'interesting' behaviour."""
    return [
        rule(pred, exit, out, err),
        rule('all', else_exit, else_out, else_err)
    ]


# ---- python evaluation of the same predicate language (independent of the C
# implementation; used by self-tests and oracles) -------------------------
def eval_pred(pred, text, set_loader=None):
    raw = refreader.strip_comments(refreader.lex(text, tolerant=True))
    toks = refreader.canon_fresh(raw)
    td = refreader.fnv1a(toks)

    def balanced():
        d = 0
        for t in toks:
            if t == '(':
                d += 1
            elif t == ')':
                d -= 1
                if d < 0:
                    return False
        return d == 0

    def atom(a):
        u = urllib.parse.unquote
        if a == 'all':
            return True
        if a == 'balanced':
            return balanced()
        if a.startswith('has:'):
            return u(a[4:]) in toks
        if a.startswith('first:'):
            return len(toks) > 1 and toks[1] == u(a[6:])
        if a.startswith('count:'):
            t, k = a[6:].split('>=')
            return toks.count(u(t)) >= int(k)
        if a.startswith('ntok>='):
            return len(toks) >= int(a[6:])
        if a.startswith('ntok<='):
            return len(toks) <= int(a[6:])
        if a.startswith('depth>='):
            d = m = 0
            for t in toks:
                if t == '(':
                    d += 1
                    m = max(m, d)
                elif t == ')':
                    d -= 1
            return m >= int(a[7:])
        if a.startswith('hash:'):
            _, m, rs = a.split(':')
            return td % int(m) in [int(x) for x in rs.split(',')]
        if a.startswith('subseq:'):
            want = [u(x) for x in a[7:].split(',')]
            pos = 0
            for w in want:
                try:
                    pos = toks.index(w, pos) + 1
                except ValueError:
                    return False
            return True
        if a.startswith('set:'):
            with open(a[4:]) as f:
                return ('%016x' % td) in {l.strip()[:16] for l in f}
        if a == 'scoped':
            # on the tokens as they are (as vcmd does): two fresh variables
            # are two symbols
            return scoped(raw)
        raise ValueError(a)

    st = []
    for p in pred.split():
        if p == '&':
            b = st.pop()
            st[-1] = st[-1] and b
        elif p == '|':
            b = st.pop()
            st[-1] = st[-1] or b
        elif p == '!':
            st[-1] = not st[-1]
        else:
            st.append(atom(p))
    assert len(st) == 1
    return st[0]


def scoped(toks):
    d = 0
    for t in toks:
        if t == '(':
            d += 1
        elif t == ')':
            d -= 1
            if d < 0:
                return False
    if d != 0:
        return False
    decl = {}
    for k in range(len(toks) - 2):
        if toks[k] == '(' and toks[k + 1] in ('declare-const', 'declare-fun',
                                              'define-fun'):
            nm = toks[k + 2]
            if nm in '()':
                continue
            if nm in decl:
                return False
            decl[nm] = k + 2
    depth = 0
    adepth = -1
    for k, t in enumerate(toks):
        if t == '(':
            depth += 1
            if adepth < 0 and k + 1 < len(toks) and toks[k + 1] == 'assert':
                adepth = depth
            continue
        if t == ')':
            if adepth == depth:
                adepth = -1
            depth -= 1
            continue
        if adepth < 0:
            continue
        if t in decl:
            if not decl[t] < k:
                return False
        elif refreader.FRESH_RE.match(t) or t == 'x#__fresh':
            return False
    return True


def eval_spec(rules, text):
    """(rule index, exit, out, err, fault) the command gives for text."""
    for i, line in enumerate(rules):
        pred, beh = line.split('=>')
        if eval_pred(pred.strip(), text):
            ex, out, err, fault = 0, '', '', None
            for item in beh.split():
                k, v = item.split('=', 1)
                if k == 'exit':
                    ex = int(v)
                elif k == 'out':
                    out = urllib.parse.unquote(v, errors='surrogateescape')
                elif k == 'err':
                    err = urllib.parse.unquote(v, errors='surrogateescape')
                elif k == 'fault':
                    fault = v
                elif k == 'delay':
                    pass
            return i, ex, out, err, fault
    return -1, 0, '', '', None


class RunResult:
    pass


def run_ddsmt(workdir,
              input_text,
              spec,
              opts=(),
              ext='.smt2',
              extra_cmd_args=(),
              cc_spec=None,
              launcher=None,
              entry='bin',
              delay=None,
              hashseed='0',
              timeout=WATCHDOG,
              infile_name=None,
              outfile_name=None,
              signal_after=None,
              signal_after_tests=None,
              signal_no=signal.SIGINT,
              pre_outfile=None,
              input_bytes=None,
              env_extra=None,
              cmd_override=None,
              reader=False,
              argv_prefix=None,
              stop_when=None,
              cc_same_basename=False,
              infile_link_target=None):
    """Run the real ddSMT once.  ``spec``/``cc_spec``: list of rule lines.
    ``launcher``: None (the real executable) or a vlaunch config dict.
    ``entry``: 'bin' (bin/ddsmt) or 'module' (python -m ddsmt).
    Returns a RunResult."""
    os.makedirs(workdir, exist_ok=True)
    tmpdir = os.path.join(workdir, 'tmp')
    os.makedirs(tmpdir, exist_ok=True)
    infile = os.path.join(workdir, infile_name or ('in' + ext))
    outfile = os.path.join(workdir, outfile_name or ('out' + ext))
    data = input_bytes if input_bytes is not None else input_text.encode(
        'utf-8')
    if infile_link_target:
        # the input file the user names is a symbolic link (as content
        # addressed stores make them); its target has another name
        real = os.path.join(workdir, infile_link_target)
        os.makedirs(os.path.dirname(real), exist_ok=True)
        with open(real, 'wb') as f:
            f.write(data)
        if os.path.lexists(infile):
            os.unlink(infile)
        os.symlink(real, infile)
    else:
        with open(infile, 'wb') as f:
            f.write(data)
    if pre_outfile is not None:
        with open(outfile, 'wb') as f:
            f.write(pre_outfile)
    specfile = os.path.join(workdir, 'spec.txt')
    with open(specfile, 'w') as f:
        f.write('\n'.join(spec) + '\n')
    cmdlog = os.path.join(workdir, 'cmd.log')
    vc = vcmd_path()
    # ddSMT copies cmd[0]; give each run its own copy so runs are independent
    cmd = os.path.join(workdir, 'vcmd')
    if cc_same_basename and cc_spec is not None:
        # two builds of one solver: executables with the same file name in
        # different directories; each carries its spec with it (a trailer
        # vcmd looks for), so they are different programs
        cmd = os.path.join(workdir, 'build-a', 'solver')
        os.makedirs(os.path.dirname(cmd), exist_ok=True)
        if not os.path.exists(cmd):
            shutil.copy(vc, cmd)
            with open(cmd, 'ab') as f:
                f.write(f'\n#VCMD-SPEC:{specfile}\n'.encode())
    elif not os.path.exists(cmd):
        shutil.copy(vc, cmd)
    args = list(opts)
    if cc_spec is not None:
        ccfile = os.path.join(workdir, 'spec_cc.txt')
        with open(ccfile, 'w') as f:
            f.write('\n'.join(cc_spec) + '\n')
        if cc_same_basename:
            cc = os.path.join(workdir, 'build-b', 'solver')
            os.makedirs(os.path.dirname(cc), exist_ok=True)
            if not os.path.exists(cc):
                shutil.copy(vc, cc)
                with open(cc, 'ab') as f:
                    f.write(f'\n#VCMD-SPEC:{ccfile}\n'.encode())
            args += ['-c', f'{cc}']
        else:
            cc = os.path.join(workdir, 'vcmd_cc')
            if not os.path.exists(cc):
                shutil.copy(vc, cc)
            args += ['-c', f'{cc} {ccfile}']
    if cmd_override is not None:
        cmdline = list(cmd_override)
    elif cc_same_basename and cc_spec is not None:
        cmdline = [cmd] + list(extra_cmd_args)
    else:
        cmdline = [cmd, specfile] + list(extra_cmd_args)
    args += [infile, outfile] + cmdline
    env = common.child_env(hashseed=hashseed)
    env['TMPDIR'] = tmpdir
    env['VCMD_LOG'] = cmdlog
    if delay:
        env['VCMD_DELAY'] = f'{delay[0]}:{delay[1]}'
    else:
        env.pop('VCMD_DELAY', None)
    events = None
    if launcher is not None:
        events = os.path.join(workdir, 'events.jsonl')
        cfg = dict(launcher)
        cfg['events'] = events
        cfgfile = os.path.join(workdir, 'vlaunch.json')
        with open(cfgfile, 'w') as f:
            json.dump(cfg, f)
        env['VLAUNCH_CONFIG'] = cfgfile
        env['DDSMT_VERIF'] = '1'
        argv = [common.PY, '-m', 'vlib.vlaunch'] + args
    elif entry == 'module':
        argv = [common.PY, '-m', 'ddsmt'] + args
    else:
        argv = [common.PY, os.path.join(common.REPO, 'bin', 'ddsmt')] + args
    if env_extra:
        env.update(env_extra)
    if argv_prefix:
        argv = list(argv_prefix) + argv
    in_before = refreader.fnv1a([data.decode('latin-1')])
    t0 = time.time()
    # stdout/stderr go to files, not pipes: if the main process dies (e.g.
    # from SIGKILL) orphaned workers keep inherited pipes open for ever
    so_path = os.path.join(workdir, 'stdout.txt')
    se_path = os.path.join(workdir, 'stderr.txt')
    so = open(so_path, 'wb')
    se = open(se_path, 'wb')
    proc = subprocess.Popen(argv,
                            stdout=so,
                            stderr=se,
                            stdin=subprocess.DEVNULL,
                            env=env,
                            cwd=workdir,
                            start_new_session=True)
    so.close()
    se.close()
    timed_out = False
    killed_at = None
    stopped_early = False
    sent_signal = False
    reader_seen = {}
    reader_stop = []
    reader_polls = [0]

    def poll_reader():
        # what another process sees when it opens the output file
        while not reader_stop:
            try:
                with open(outfile, 'rb') as f:
                    data_ = f.read()
            except FileNotFoundError:
                data_ = None
            reader_polls[0] += 1
            if data_ not in reader_seen:
                reader_seen[data_] = reader_polls[0]
            time.sleep(0.0002)

    rthread = None
    if reader:
        import threading
        rthread = threading.Thread(target=poll_reader, daemon=True)
        rthread.start()
    try:
        if signal_after_tests is not None:
            deadline = time.time() + timeout
            while proc.poll() is None and time.time() < deadline:
                try:
                    with open(cmdlog, 'rb') as f:
                        nlines = f.read().count(b'\n')
                except FileNotFoundError:
                    nlines = 0
                if nlines >= signal_after_tests + 1:
                    os.kill(proc.pid, signal_no)
                    sent_signal = True
                    break
                time.sleep(0.002)
            proc.wait(timeout=timeout)
        elif signal_after is not None:
            try:
                proc.wait(timeout=signal_after)
            except subprocess.TimeoutExpired:
                os.kill(proc.pid, signal_no)
                sent_signal = True
                proc.wait(timeout=timeout)
        elif stop_when is not None:
            # end the run as soon as the caller has seen enough (e.g. the
            # number of accepted steps that proves a cycle)
            deadline = time.time() + timeout
            while proc.poll() is None:
                if time.time() > deadline:
                    raise subprocess.TimeoutExpired(argv, timeout)
                if stop_when(workdir):
                    stopped_early = True
                    try:
                        os.killpg(proc.pid, signal.SIGKILL)
                    except OSError:
                        pass
                    proc.wait()
                    break
                time.sleep(0.05)
        else:
            proc.wait(timeout=timeout)
    except subprocess.TimeoutExpired:
        timed_out = True
        killed_at = time.monotonic()
        if launcher is not None:
            # ask the launcher for the stacks of all threads (witness)
            try:
                os.kill(proc.pid, signal.SIGUSR1)
                time.sleep(0.5)
            except OSError:
                pass
        try:
            os.killpg(proc.pid, signal.SIGKILL)
        except OSError:
            pass
        proc.wait()
    with open(so_path, 'rb') as f:
        out = f.read()
    with open(se_path, 'rb') as f:
        err = f.read()
    if rthread is not None:
        reader_stop.append(1)
        rthread.join()
    # make sure nothing of this run's process group lingers; remember what
    # was still alive (the run's session id is the main pid)
    try:
        os.killpg(proc.pid, 0)
        lingering = True
    except OSError:
        lingering = False
    lingering_procs = []
    if lingering:
        time.sleep(0.05)
        for ent in os.listdir('/proc'):
            if not ent.isdigit():
                continue
            try:
                with open(f'/proc/{ent}/stat') as f:
                    st = f.read()
                rest = st[st.rindex(')') + 2:].split()
                state, pgrp = rest[0], int(rest[2])
                if pgrp != proc.pid or state == 'Z':
                    continue
                with open(f'/proc/{ent}/cmdline', 'rb') as f:
                    cl = f.read().replace(b'\0', b' ').decode('utf-8',
                                                              'replace')
                lingering_procs.append((int(ent), state, cl[:300]))
            except (OSError, ValueError, IndexError):
                continue
    r = RunResult()
    r.argv = argv
    r.opts = list(opts)
    r.rc = proc.returncode
    r.stdout = out.decode('utf-8', 'replace')
    r.stderr = err.decode('utf-8', 'replace')
    r.wall = time.time() - t0
    r.timed_out = timed_out
    # CLOCK_MONOTONIC at the moment the watchdog fired (the launcher stamps
    # its events with the same clock)
    r.watchdog_fired_at = killed_at
    r.stopped_early = stopped_early
    r.sent_signal = sent_signal
    r.lingering_group = lingering
    r.lingering_procs = lingering_procs
    r.reader_seen = reader_seen
    r.reader_polls = reader_polls[0]
    r.infile = infile
    r.outfile = outfile
    r.workdir = workdir
    r.specfile = specfile
    r.cmd = cmd
    r.cc_cmd = cc if cc_spec is not None else None
    with open(infile, 'rb') as f:
        after = f.read()
    r.infile_unchanged = (after == data) and refreader.fnv1a(
        [after.decode('latin-1')]) == in_before
    try:
        with open(outfile, 'rb') as f:
            r.out_bytes = f.read()
    except (FileNotFoundError, IsADirectoryError, NotADirectoryError):
        r.out_bytes = None
    r.cmdlog = read_jsonl(cmdlog)
    r.events = read_jsonl(events) if events else []
    r.tmp_listing = sorted(os.listdir(tmpdir))
    r.uncaught_traceback = has_uncaught_traceback(r.stderr)
    if lingering:
        try:
            os.killpg(proc.pid, signal.SIGKILL)
        except OSError:
            pass
    return r


def has_uncaught_traceback(stderr):
    """An uncaught exception prints the header 'Traceback (most recent call
    last)'; the same header after 'Exception ignored in ...' belongs to an
    exception the interpreter swallowed during shutdown and is not one."""
    lines = stderr.splitlines()
    for i, l in enumerate(lines):
        if l.startswith('Traceback (most recent call last)'):
            if i > 0 and lines[i - 1].startswith('Exception ignored in'):
                continue
            return True
    return False


def read_jsonl(path):
    out = []
    if not path or not os.path.exists(path):
        return out
    with open(path, 'rb') as f:
        for line in f:
            try:
                # bytes that are not UTF-8 (a command's output) stay
                # distinguishable
                out.append(json.loads(line.decode('utf-8',
                                                  'surrogateescape')))
            except ValueError:
                out.append({'ev': 'garbled', 'raw': line[:200].decode(
                    'latin-1')})
    return out


def run_vcmd(cmd, specfile, file, extra=(), log=None):
    """Run the command itself on a file (the 're-run' oracle of C01)."""
    env = dict(os.environ)
    if log:
        env['VCMD_LOG'] = log
    else:
        env.pop('VCMD_LOG', None)
    env.pop('VCMD_DELAY', None)
    p = subprocess.run([cmd, specfile] + list(extra) + [file],
                       capture_output=True,
                       env=env,
                       timeout=60)
    return p.returncode, p.stdout.decode(
        'utf-8', 'surrogateescape'), p.stderr.decode('utf-8',
                                                     'surrogateescape')


def matches(golden, run, ignore_out=False, ignore_err=False, match_out=None,
            match_err=None):
    """Independent statement of the documented comparison (quickstart.rst):
    exit codes equal and, per stream, ignored or contains the match string or
    (without match string) equal to the golden stream."""
    gex, gout, gerr = golden
    ex, out, err = run
    if ex != gex:
        return False
    for ign, m, g, o in ((ignore_out, match_out, gout, out),
                         (ignore_err, match_err, gerr, err)):
        if ign:
            continue
        if m:
            if o is None or m not in o:
                return False
        elif g != o:
            return False
    return True


def completed_normally(r):
    """Did the run reach the end of minimisation?"""
    return ('unable to minimize input file' in r.stderr
            or r.out_bytes is not None) and r.rc == 0
