"""Logical step budgets with sys.monitoring LINE events (CPython 3.12).

``with StepBudget(codes, limit):`` counts LINE events executed in the given
code objects and raises BudgetExceeded *inside the monitored code* when the
limit is exceeded, so a non-terminating call is decided on logical steps, not
on wall-clock time.
"""
import sys
import types

mon = sys.monitoring
TOOL = 4  # a free tool id (0 debugger, 1 coverage, 2 profiler, 5 optimizer)


class BudgetExceeded(BaseException):
    """BaseException so that ``except Exception`` in the code under test
    cannot swallow it."""


def code_objects(obj):
    """All code objects of a function / class / module defined in it."""
    out = []
    seen = set()

    def add_code(c):
        if id(c) in seen:
            return
        seen.add(id(c))
        out.append(c)
        for k in c.co_consts:
            if isinstance(k, types.CodeType):
                add_code(k)

    def add(o, modname):
        if isinstance(o, types.FunctionType):
            add_code(o.__code__)
        elif isinstance(o, (classmethod, staticmethod)):
            add(o.__func__, modname)
        elif isinstance(o, type):
            for v in vars(o).values():
                add(v, modname)

    if isinstance(obj, types.ModuleType):
        for v in vars(obj).values():
            if getattr(v, '__module__', None) == obj.__name__:
                add(v, obj.__name__)
    else:
        add(obj, None)
    return out


class StepBudget:
    _active = None

    def __init__(self, codes, limit):
        self.codes = codes
        self.limit = limit
        self.steps = 0

    def _cb(self, code, line):
        self.steps += 1
        if self.steps > self.limit:
            raise BudgetExceeded(f'{self.steps} steps > budget {self.limit}')

    def __enter__(self):
        assert StepBudget._active is None
        StepBudget._active = self
        self.steps = 0
        try:
            mon.use_tool_id(TOOL, 'verif-budget')
        except ValueError:
            pass
        mon.register_callback(TOOL, mon.events.LINE, self._cb)
        for c in self.codes:
            mon.set_local_events(TOOL, c, mon.events.LINE)
        return self

    def __exit__(self, *exc):
        for c in self.codes:
            mon.set_local_events(TOOL, c, 0)
        mon.register_callback(TOOL, mon.events.LINE, None)
        StepBudget._active = None
        return False


class PersistentBudget:
    """Like StepBudget, but LINE events stay enabled on the code objects for
    the life time of the object; ``begin(limit)`` / ``end()`` only reset the
    counter.  Much cheaper when millions of short calls are measured."""

    def __init__(self, codes):
        self.codes = codes
        self.limit = None
        self.steps = 0
        try:
            mon.use_tool_id(TOOL, 'verif-budget')
        except ValueError:
            pass
        mon.register_callback(TOOL, mon.events.LINE, self._cb)
        for c in codes:
            mon.set_local_events(TOOL, c, mon.events.LINE)

    def _cb(self, code, line):
        if self.limit is None:
            return None
        self.steps += 1
        if self.steps > self.limit:
            self.limit = None
            raise BudgetExceeded(f'{self.steps} steps over budget')

    def begin(self, limit):
        self.steps = 0
        self.limit = limit

    def end(self):
        self.limit = None
        return self.steps

    def close(self):
        for c in self.codes:
            mon.set_local_events(TOOL, c, 0)
        mon.register_callback(TOOL, mon.events.LINE, None)
